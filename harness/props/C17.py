"""C17 — DAG exports are complete and re-importing them reproduces the DAG."""
from __future__ import annotations
import itertools, math, random
import core
from core import hx
from runner import Case
from props import _dag_util as U

THEOREMS = [
    "C17.list_roundtrip", "C17.dict_roundtrip", "C17.rows_roundtrip",
    "C17.export_each_edge_once", "C17.cycle_refused",
    "C17.list_export_each_edge_once", "C17.dict_export_each_edge_once", "C17.rows_export_each_edge_once",
    "C17.list_cycle_refused", "C17.dict_cycle_refused", "C17.rows_cycle_refused", "C17.list_acyclic_accepted",
    "C17.all_attrs_exported",
]
PROOF_IMPORTS = ["BigtreeProofs.Properties.C17"]
RULE = ("round-trip cases: a weakly connected DAG with >=1 edge (edges in construction order, added through random "
        "real setters), attributes on some nodes, a start node, a format (list / dict / DataFrame through real "
        "pandas) and an attribute selection (all_attrs or an attr_dict, sometimes renaming); compared: the export "
        "(as a multiset) and the DAG rebuilt from it by the matching constructor (node names, edge set, attributes). "
        "An empty selection is passed either as attr_dict={} or not at all (the exporter's own defaults; cases run in one "
        "process, so whatever an earlier export left in a shared default shows); the caller's attr_dict must come back "
        "unchanged; about 30 % of the random DAGs are history-built (queries, refused and rolled-back assignments, "
        "temporary edges interleaved); names colliding under concatenation. Constructor cases: relations / dictionaries / row lists in shuffled orders, with duplicates, several "
        "components, and a malformed stream with cycles, self loops, empty input, conflicting attribute rows "
        "(refusals: TreeError for cycles). Exhaustive: all weakly connected DAGs on 2..4 nodes x 3 formats from one "
        "start node (quick) / every start node (thorough). Non-trivial = at least 3 edges")
EXHAUSTIVE = {
    "quick": "all weakly connected acyclic edge sets on 2..4 labelled nodes x {list, dict, rows}, one construction order, one random start node",
    "thorough": "all weakly connected acyclic edge sets on 2..4 labelled nodes x {list, dict, rows} x every start node, two construction orders",
}
MODELLED = ["node names are ids (distinct by hypothesis); a DataFrame is a list of rows: columns in order of first appearance, "
            "missing values null, drop_duplicates keeps first occurrences (exercised through real pandas on every case)",
            "dag.copy() inside the exporters is the identity on (names, ordered links, attributes)"]
ASSUMPTIONS = ["node names are distinct; the DAG is weakly connected and has at least one edge (an isolated node exports to an empty list/dict/frame)",
               "attribute values are ints and strings, one type per attribute key; attribute keys are not reserved words, not 'name', and exported keys do not collide with the parent key",
               "an attribute the export writes as null (attr_dict asks for an attribute the node lacks) counts as absent"]
FORMATS = ["list", "dict", "rows"]


# ---------------------------------------------------------------- cases
def _enc_sel(sel):
    if sel == "all":
        return "all"
    return "pick:" + ",".join(hx(k) + ">" + hx(v) for k, v in sel)


def _enc_entry(key, parents, attrs):
    ps = "~" if parents is None else ("-" if not parents else ".".join(str(p) for p in parents))
    return "%s/%s/%s" % (key, ps, core.enc_attrs(attrs))


def _semi(items):
    items = list(items)
    return ";".join(items) if items else "-"


def _line(d):
    if d["op"] == "rt":
        return "op=rt fmt=%s sel=%s %s A=%s s=%d" % (d["fmt"], _enc_sel(d["sel"]), U.dag_tokens(d),
                                                      U.enc_node_attrs(d["attrs"]), d["start"])
    if d["fmt"] == "list":
        return "op=cons fmt=list R=%s" % U.enc_edges(d["rel"])
    if d["fmt"] == "dict":
        return "op=cons fmt=dict D=%s" % _semi(_enc_entry(k, ps, a) for k, ps, a in d["entries"])
    return "op=cons fmt=rows W=%s" % _semi(_enc_entry(k, None if p is None else [p], a) for k, p, a in d["rows"])


def mk_rt(n, edges, start, fmt, sel, attrs, rng, names=None, tags=(), noise=0):
    edges = [list(e) for e in edges]
    d = {"op": "rt", "fmt": fmt, "sel": sel, "n": n, "edges": edges, "start": start, "attrs": attrs,
         "modes": "".join(rng.choice("PPCCRL") for _ in edges), "names": names or ["n%d" % i for i in range(n)]}
    tags = tuple(tags)
    if sel == [] and rng.random() < 0.6:
        d["dflt"] = 1           # call the exporter with its DEFAULT attr_dict / all_attrs (no keyword at all)
        tags += ("default-args",)
    if noise:
        d["noise"] = U.add_noise(rng, n, edges, noise)
        tags += ("history",)
    return Case(_line(d), d, tags + ("rt", fmt))


def mk_cons(fmt, payload, n, names=None, tags=()):
    d = {"op": "cons", "fmt": fmt, "n": n, "names": names or ["n%d" % i for i in range(n)]}
    d.update(payload)
    return Case(_line(d), d, tuple(tags) + ("cons", fmt))


def rehydrate(case):
    return Case(case.line, case.data)


def _random_sel(rng, attrs):
    r = rng.random()
    if r < 0.45:
        return "all"
    if r < 0.6:
        return []
    keys = [k for k in U.ATTR_KEYS if rng.random() < 0.6]
    rng.shuffle(keys)
    rename = rng.random() < 0.3
    return [[k, ("col " + k if rename else k)] for k in keys]


def _cols_for_rows(rows):
    cols = []
    for _k, _p, a in rows:
        for c in a:
            if c not in cols:
                cols.append(c)
    return cols


def _random_cons(rng, fmt, kind, tags):
    """kind: valid | dup | multi | cyclic | self | conflict"""
    n = rng.randint(2, 8)
    if kind in ("cyclic", "self"):
        base = U.random_dag(rng, n, max_parents=3, connected=True)
        if kind == "self":
            v = rng.randrange(n)
            base.insert(rng.randrange(len(base) + 1), (v, v))
        else:
            # close a cycle of any length: add an edge from a descendant back to an ancestor
            ch = {i: [c for p, c in base if p == i] for i in range(n)}
            pairs = []
            for x in range(n):
                seen, todo, dist = {}, [(x, 0)], None
                while todo:
                    y, dd = todo.pop()
                    for z in ch[y]:
                        if z not in seen or seen[z] < dd + 1:
                            seen[z] = dd + 1
                            todo.append((z, dd + 1))
                pairs += [(x, y, dd) for y, dd in seen.items()]
            long_pairs = [pr for pr in pairs if pr[2] >= 2]
            x, y, _dd = rng.choice(long_pairs if long_pairs and rng.random() < 0.7 else pairs)
            base.insert(rng.randrange(len(base) + 1), (y, x))
            if rng.random() < 0.5:
                rng.shuffle(base)
        edges = base
    else:
        edges = U.random_dag(rng, n, max_parents=3, connected=(kind != "multi"))
        if not edges:
            edges = [(0, 1)]
        if kind == "dup":
            for _ in range(rng.randint(1, 3)):
                edges.insert(rng.randrange(len(edges) + 1), rng.choice(edges))
    edges = [list(e) for e in edges]
    names = U.make_names(rng, n)
    attrs = U.random_attrs(rng, n, rng.choice([0.0, 0.4, 0.8]))
    if fmt == "list":
        return mk_cons("list", {"rel": edges}, n, names, tags + (kind,))
    if fmt == "dict":
        # group parents per child in first-appearance order; entries (incl. parentless nodes) shuffled
        par = {}
        for p, c in edges:
            par.setdefault(c, [])
            if kind == "dup" or p not in par[c]:
                par[c].append(p)
        keys = [i for i in range(n) if i in par or any(p == i for p, _ in edges) and rng.random() < 0.7]
        rng.shuffle(keys)
        entries = []
        for k in keys:
            ps = par.get(k)
            if ps is None and rng.random() < 0.2:
                ps = []
            entries.append([k, ps, attrs.get(str(k), {})])
        if not entries:
            entries = [[edges[0][1], [edges[0][0]], {}]]
        return mk_cons("dict", {"entries": entries}, n, names, tags + (kind,))
    rows = [[c, p, dict(attrs.get(str(c), {}))] for p, c in edges]
    roots = [i for i in range(n) if not any(c == i for _, c in edges) and any(p == i for p, _ in edges)]
    for r in roots:
        if rng.random() < 0.7:
            rows.insert(rng.randrange(len(rows) + 1), [r, None, dict(attrs.get(str(r), {}))])
    if kind == "conflict":
        cands = [r for r in rows if r[2]]
        if cands:
            r = rng.choice(cands)
            k = rng.choice(list(r[2]))
            bad = dict(r[2])
            bad[k] = (r[2][k] + 1) if isinstance(r[2][k], int) else r[2][k] + "!"
            rows.append([r[0], r[1], bad])
        else:
            kind = "valid"
    cols = _cols_for_rows(rows)
    rows = [[k, p, {c: a.get(c) for c in cols}] for k, p, a in rows]
    return mk_cons("rows", {"rows": rows}, n, names, tags + (kind,))


def gen(rng: random.Random, tier: str):
    cases = []
    probe = mk_rt(2, [(0, 1)], 0, "list", [], {}, rng, tags=("corpus", "probe-deep"))
    probe.data["probe"] = "deep"      # one-off probe (the case itself is trivial): see _deep_probe
    probe.data.pop("dflt", None)
    cases.append(probe)
    # corpus
    doc = (5, [(0, 2), (1, 2), (0, 3), (2, 3), (3, 4)])
    doc_attrs = {"0": {"s": 1}, "1": {"s": 1}, "2": {"s": 2}, "3": {"s": 2}, "4": {"s": 3}}
    for fmt in FORMATS:
        for sel in ("all", [["s", "step no."]], []):
            for s in (0, 2, 4):
                cases.append(mk_rt(doc[0], doc[1], s, fmt, sel, doc_attrs, rng, names=list("abcde"), tags=("corpus",)))
        cases.append(mk_rt(6, [(1, 0), (2, 0), (3, 0), (4, 3), (4, 5)], 0, fmt, "all", {"4": {"Z": "x"}}, rng, tags=("corpus",)))
    cases.append(mk_cons("list", {"rel": [[0, 1], [1, 2], [2, 0]]}, 3, tags=("corpus", "cyclic")))
    cases.append(mk_cons("list", {"rel": [[0, 0]]}, 1, tags=("corpus", "self")))
    cases.append(mk_cons("list", {"rel": [[0, 1], [1, 0]]}, 2, tags=("corpus", "cyclic")))
    cases.append(mk_cons("list", {"rel": []}, 0, tags=("corpus", "empty")))
    cases.append(mk_cons("dict", {"entries": [[0, [1], {}], [1, [0], {}]]}, 2, tags=("corpus", "cyclic")))
    cases.append(mk_cons("dict", {"entries": [[0, None, {"s": 1}]]}, 1, tags=("corpus", "noparent")))
    cases.append(mk_cons("dict", {"entries": []}, 0, tags=("corpus", "empty")))
    cases.append(mk_cons("rows", {"rows": [[1, 0, {}], [0, 1, {}]]}, 2, tags=("corpus", "cyclic")))
    cases.append(mk_cons("rows", {"rows": [[1, 0, {"s": 1}], [1, 2, {"s": 2}]]}, 3, tags=("corpus", "conflict")))
    # every ORDER of a few small cyclic relations (a cycle closed through a chain that was extended at the top after
    # its lower part had been linked - the loop check must see the ancestors as they are now, not as they were)
    import itertools as _it
    cyc_sets = [[[0, 1], [1, 2], [2, 3], [4, 0], [2, 4]],      # g>p, p>x, x>y, a>g, x>a
                [[0, 1], [1, 2], [3, 0], [2, 3]],
                [[0, 1], [1, 2], [2, 3], [3, 1], [4, 0]]]
    for cs in (cyc_sets if tier == "thorough" else cyc_sets[:2]):
        nn = 1 + max(max(e) for e in cs)
        for perm in _it.permutations(cs):
            cases.append(mk_cons("list", {"rel": [list(e) for e in perm]}, nn, tags=("enum", "cyclic", "all-orders")))
    # exhaustive small scope
    for n in range(2, 5):
        for es in U.all_acyclic_edge_sets(n):
            if not es or not U.weakly_connected(n, es):
                continue
            orders = [es]
            if tier == "thorough":
                o = es[:]
                rng.shuffle(o)
                orders.append(o)
            for o in orders:
                starts = range(n) if tier == "thorough" else [rng.randrange(n)]
                for s in starts:
                    for fmt in FORMATS:
                        attrs = U.random_attrs(rng, n, rng.choice([0.0, 0.5]))
                        cases.append(mk_rt(n, o, s, fmt, _random_sel(rng, attrs), attrs, rng, tags=("enum", "n=%d" % n)))
    # random round trips
    nr = 250 if tier == "quick" else 3000
    for _ in range(nr):
        n = rng.randint(4, 10)
        edges = U.random_dag(rng, n, max_parents=rng.choice([2, 3, 4]), connected=True)
        names = U.make_names(rng, n)
        attrs = U.random_attrs(rng, n, rng.choice([0.0, 0.3, 0.7, 1.0]), private=rng.random() < 0.2)
        for fmt in FORMATS:
            cases.append(mk_rt(n, edges, rng.randrange(n), fmt, _random_sel(rng, attrs), attrs, rng, names=names,
                               tags=("random", "attrs" if attrs else "noattrs"),
                               noise=(rng.randint(2, 5) if rng.random() < 0.3 else 0)))
    for _ in range(40 if tier == "quick" else 400):
        n, edges = U.fan_dag(rng)
        attrs = U.random_attrs(rng, n, rng.choice([0.0, 0.5]))
        for fmt in FORMATS:
            cases.append(mk_rt(n, edges, rng.randrange(n), fmt, _random_sel(rng, attrs), attrs, rng, tags=("fan",)))
    # names that collide under concatenation with a joiner (keys built by joining two names)
    for j in U.JOINERS:
        for _ in range(1 if tier == "quick" else 6):
            n, edges, names = U.collide_dag(rng, j)
            attrs = U.random_attrs(rng, n, 0.5)
            for fmt in FORMATS:
                cases.append(mk_rt(n, edges, rng.randrange(n), fmt, _random_sel(rng, attrs), attrs, rng, names=names, tags=("collide-names",)))
    # constructors on their own: mostly valid + malformed stream
    nc = 400 if tier == "quick" else 4000
    for _ in range(nc):
        fmt = rng.choice(FORMATS)
        kind = rng.choice(["valid", "valid", "valid", "dup", "dup", "multi", "multi", "cyclic", "cyclic", "self"] + (["conflict"] if fmt == "rows" else []))
        cases.append(_random_cons(rng, fmt, kind, ("random",)))
    return cases


def nontrivial(case):
    d = case.data
    if d["op"] == "rt":
        return len(d["edges"]) >= 3
    return len(d.get("rel") or d.get("entries") or d.get("rows") or []) >= 3


# ---------------------------------------------------------------- canonical forms (implementation side)
def _canon_val(v):
    """pandas / numpy scalars -> what the protocol knows (null, bool, int, str); no float text"""
    if v is None:
        return None
    if isinstance(v, str):
        return v
    if isinstance(v, bool):
        return v
    tn = type(v).__name__
    if tn.startswith("bool"):
        return bool(v)
    if tn.startswith("int") or tn.startswith("uint"):
        return int(v)
    if isinstance(v, float) or tn.startswith("float"):
        f = float(v)
        if math.isnan(f):
            return None
        if f == int(f):
            return int(f)
        raise TypeError("non-integral float %r" % v)
    if v != v:   # pd.NA / NaT
        return None
    raise TypeError(repr(v))


def _isnull(v):
    try:
        return v is None or (isinstance(v, float) and math.isnan(v)) or (not isinstance(v, str) and bool(v != v))
    except Exception:
        return True


def _public_attrs(node):
    return {k: _canon_val(v) for k, v in node.describe(exclude_attributes=["name"], exclude_prefix="_")}


def _walk(ret):
    """all objects weakly connected to `ret`"""
    seen = {id(ret): ret}
    todo = [ret]
    while todo:
        x = todo.pop()
        for y in list(x.parents) + list(x.children):
            if id(y) not in seen:
                seen[id(y)] = y
                todo.append(y)
    return list(seen.values())


def _canon_built(ret, name_id):
    """ret=… N=… E=… A=… of the DAG a constructor handed back (ids via the name table)"""
    objs = _walk(ret)
    nid = lambda o: name_id.get(o.node_name, "?")
    byid = sorted(objs, key=lambda o: (str(type(nid(o))), nid(o)))
    es = sorted((nid(p), nid(c)) for p in objs for c in p.children)
    a = ["%s:%s" % (nid(o), core.enc_attrs(dict(sorted(_public_attrs(o).items())))) for o in byid]
    return "ret=%s N=%s E=%s A=%s" % (nid(ret), core.nats(nid(o) for o in byid), U.enc_edges(es), _semi(a))


def _sel_kwargs(sel, dflt=False):
    if dflt and not sel:
        return {}
    return {"all_attrs": True} if sel == "all" else {"attr_dict": {k: v for k, v in sel}}


ARG_CHANGED = []   # filled by _export when an exporter modified the caller's attr_dict


def _export(d, nodes):
    """(export object, canonical string in the exporter's own order)"""
    import bigtree
    name_id = {nm: i for i, nm in enumerate(d["names"])}
    s = nodes[d["start"]]
    if d["fmt"] == "list":
        x = bigtree.dag_to_list(s)
        return x, U.enc_edges([(name_id[p], name_id[c]) for p, c in x])
    kw = _sel_kwargs(d["sel"], d.get("dflt"))
    kw0 = {k: (dict(v) if isinstance(v, dict) else v) for k, v in kw.items()}
    del ARG_CHANGED[:]
    if d["fmt"] == "dict":
        x = bigtree.dag_to_dict(s, **kw)
        if kw != kw0:
            ARG_CHANGED.append(f"dag_to_dict changed the caller's attr_dict {kw0.get('attr_dict')} -> {kw.get('attr_dict')}")
        items = []
        for k, v in x.items():
            ps = [name_id[p] for p in v["parents"]] if "parents" in v else None
            items.append(_enc_entry(name_id[k], ps, {a: _canon_val(b) for a, b in v.items() if a != "parents"}))
        return x, _semi(items)
    x = bigtree.dag_to_dataframe(s, **kw)
    if kw != kw0:
        ARG_CHANGED.append(f"dag_to_dataframe changed the caller's attr_dict {kw0.get('attr_dict')} -> {kw.get('attr_dict')}")
    items = []
    for row in x.to_dict("records"):
        p = row["parent"]
        items.append(_enc_entry(name_id[row["name"]], None if _isnull(p) else [name_id[p]],
                                {a: _canon_val(b) for a, b in row.items() if a not in ("name", "parent")}))
    return x, _semi(items)


def _construct(d, payload=None):
    """call the real constructor; returns the returned node"""
    import bigtree
    import pandas as pd
    names = d["names"]
    if d["op"] == "rt":
        fn = {"list": bigtree.list_to_dag, "dict": bigtree.dict_to_dag, "rows": bigtree.dataframe_to_dag}[d["fmt"]]
        return fn(payload)
    if d["fmt"] == "list":
        return bigtree.list_to_dag([(names[p], names[c]) for p, c in d["rel"]])
    if d["fmt"] == "dict":
        rel = {}
        for k, ps, a in d["entries"]:
            v = dict(a)
            if ps is not None:
                v["parents"] = [names[p] for p in ps]
            rel[names[k]] = v
        return bigtree.dict_to_dag(rel)
    cols = _cols_for_rows(d["rows"])
    data = [[names[k], None if p is None else names[p]] + [a.get(c) for c in cols] for k, p, a in d["rows"]]
    from props._e_util import odd_index
    import zlib
    if zlib.crc32(repr(data).encode()) % 3 == 1:
        # the relation columns named explicitly and placed last (a function of the case)
        df = pd.DataFrame([r[2:] + [r[1], r[0]] for r in data], columns=cols + ["parent", "child"])
        return bigtree.dataframe_to_dag(odd_index(df, data), child_col="child", parent_col="parent")
    return bigtree.dataframe_to_dag(odd_index(pd.DataFrame(data, columns=["child", "parent"] + cols), data))


def _rej(e):
    from bigtree.utils.exceptions import TreeError
    if isinstance(e, TreeError):
        return "rej:TreeError"
    if isinstance(e, ValueError):
        return "rej:ValueError"
    return "rej:" + type(e).__name__


def impl(case):
    d = case.data
    name_id = {nm: i for i, nm in enumerate(d["names"])}
    if d["op"] == "rt":
        nodes = U.build_real(d)
        x, xs = _export(d, nodes)
        try:
            ret = _construct(d, x)
        except Exception as e:
            return "X=" + xs + " " + _rej(e)
        return "X=" + xs + " " + _canon_built(ret, name_id)
    try:
        ret = _construct(d)
    except Exception as e:
        return _rej(e)
    if ret.node_name == "" and not list(ret.parents) and not list(ret.children):
        return "ret=dummy"
    return _canon_built(ret, name_id)


def _canon_export(v):
    """multiset form of an export string: entries sorted; inside an entry parents and attrs sorted"""
    if ";" not in v and "/" not in v:
        return U.multiset(v, ",")
    out = []
    for item in U.multiset(v, ";"):
        k, ps, a = item.split("/")
        out.append((k, tuple(sorted(ps.split("."))), tuple(U.multiset(a, ","))))
    return sorted(out)


def compare(a, b, case):
    if a == b:
        return True
    fa, fb = a.split(" "), b.split(" ")
    if len(fa) != len(fb) or not fa[0].startswith("X=") or not fb[0].startswith("X="):
        return False
    if fa[1:] != fb[1:]:
        return False
    return _canon_export(fa[0][2:]) == _canon_export(fb[0][2:])


# ---------------------------------------------------------------- oracle (model-free)
def _requested(sel, node):
    """{exported key: value} the export must show for this node (nulls = absent)"""
    pub = _public_attrs(node)
    if sel == "all":
        return {k: v for k, v in pub.items() if v is not None}
    return {v: _canon_val(node.get_attr(k)) for k, v in sel if node.get_attr(k) is not None}


def _strip_null(a):
    return {k: _canon_val(v) for k, v in a.items() if not _isnull(v)}


def _deep_probe():
    """a DAG far deeper than anything the small-scope part reaches (a spine of 120, every pair of neighbours sharing a
    child, so below any depth there are undirected cycles): each export lists every edge exactly once and the matching
    constructor rebuilds exactly these edges"""
    import bigtree
    from bigtree import DAGNode
    L = 120       # (the recursive ancestor walks of the constructors reach the interpreter's recursion limit near 300)
    spine = [DAGNode("n%d" % i, lvl=i) for i in range(L)]
    for a, b in zip(spine, spine[1:]):
        a >> b
    for i in range(L - 1):
        t = DAGNode("t%d" % i, lvl=-i)
        spine[i] >> t
        spine[i + 1] >> t
    want = sorted([("n%d" % i, "n%d" % (i + 1)) for i in range(L - 1)] + [("n%d" % i, "t%d" % i) for i in range(L - 1)]
                  + [("n%d" % (i + 1), "t%d" % i) for i in range(L - 1)])
    msgs = []
    def edges_of(dag):
        return sorted((p.node_name, c.node_name) for p, c in bigtree.dag_iterator(dag))
    for start in (spine[0], spine[L // 2]):
        try:
            lst = bigtree.dag_to_list(start)
            dct = bigtree.dag_to_dict(start, all_attrs=True)
            frm = bigtree.dag_to_dataframe(start, all_attrs=True)
            got = {"dag_to_list": sorted((p, c) for p, c in lst),
                   "dag_to_dict": sorted((p, k) for k, v in dct.items() for p in v.get("parents", [])),
                   "dag_to_dataframe": sorted((r["parent"], r["name"]) for r in frm.to_dict("records") if isinstance(r["parent"], str))}
            back = {"list_to_dag": edges_of(bigtree.list_to_dag(lst)), "dict_to_dag": edges_of(bigtree.dict_to_dag(dct)),
                    "dataframe_to_dag": edges_of(bigtree.dataframe_to_dag(frm))}
        except Exception as e:  # noqa: BLE001
            msgs.append(f"exporting / re-importing a spine of {L} with shared leaves from {start.node_name} raised {type(e).__name__}: {str(e)[:100]}")
            continue
        for what, g in list(got.items()) + list(back.items()):
            if g != want:
                missing = [e for e in want if e not in set(g)][:4]
                msgs.append(f"{what} from {start.node_name} on a spine of {L} with shared leaves: {len(g)} edges, {len(want)} exist; "
                            f"missing {missing}, repeated {len(g) - len(set(g))}")
    return msgs


def oracle(case):
    d = case.data
    if d.get("probe") == "deep":
        return _deep_probe()
    msgs = []
    names = d["names"]
    name_id = {nm: i for i, nm in enumerate(names)}
    if d["op"] == "rt":
        nodes = U.build_real(d)
        ids = core.IdMap(nodes)
        es, sym = U.real_edges(nodes, ids)
        msgs += sym
        E = sorted((names[p], names[c]) for p, c in es)
        x, _xs = _export(d, nodes)
        msgs += ARG_CHANGED
        fmt, sel = d["fmt"], d["sel"]
        want_attrs = {n.node_name: _requested(sel, n) for n in nodes}
        roots = sorted(n.node_name for n in nodes if not list(n.parents))
        if fmt == "list":
            if sorted(map(tuple, x)) != E:
                msgs.append(f"dag_to_list: {sorted(map(tuple, x))} is not every edge exactly once {E}")
        elif fmt == "dict":
            if sorted(x) != sorted(names):
                msgs.append(f"dag_to_dict keys {sorted(x)} != node names {sorted(names)}")
            got = sorted((p, k) for k, v in x.items() for p in v.get("parents", []))
            if got != E:
                msgs.append(f"dag_to_dict parent lists give {got}, not every edge exactly once {E}")
            for k, v in x.items():
                a = _strip_null({q: w for q, w in v.items() if q != "parents"})
                if k in want_attrs and a != want_attrs[k]:
                    msgs.append(f"dag_to_dict attributes of {k!r}: {a} != {want_attrs[k]}")
        else:
            recs = x.to_dict("records")
            got = sorted((r["parent"], r["name"]) for r in recs if not _isnull(r["parent"]))
            if got != E:
                msgs.append(f"dag_to_dataframe edge rows {got} are not every edge exactly once {E}")
            rr = sorted(r["name"] for r in recs if _isnull(r["parent"]))
            if rr != roots:
                msgs.append(f"dag_to_dataframe parent-less rows {rr} != roots once each {roots}")
            for r in recs:
                a = _strip_null({q: w for q, w in r.items() if q not in ("name", "parent")})
                if a != want_attrs.get(r["name"]):
                    msgs.append(f"dag_to_dataframe attributes in row of {r['name']!r}: {a} != {want_attrs.get(r['name'])}")
        try:
            ret = _construct(d, x)
        except Exception as e:
            return msgs + [f"re-import of the {fmt} export raised {type(e).__name__}: {e}"]
        # the same export object is built from twice: it is still the export after the first build
        try:
            rets = [("", ret), (" (second build from the same export object)", _construct(d, x))]
        except Exception as e:
            return msgs + [f"second re-import of the same {fmt} export object raised {type(e).__name__}: {e}"]
        for tag, ret in rets:
            objs = _walk(ret)
            got_names = sorted(o.node_name for o in objs)
            if got_names != sorted(names):
                msgs.append(f"rebuilt node names {got_names} != {sorted(names)}{tag}")
            gotE = sorted((p.node_name, c.node_name) for p in objs for c in p.children)
            if gotE != E:
                msgs.append(f"rebuilt edges {gotE} != {E}{tag}")
            if fmt != "list":
                for o in objs:
                    a = {k: v for k, v in _public_attrs(o).items() if v is not None}
                    if a != want_attrs.get(o.node_name):
                        msgs.append(f"rebuilt attributes of {o.node_name!r}: {a} != {want_attrs.get(o.node_name)}{tag}")
        return msgs
    # constructor cases: refusal iff the relation has a cycle; otherwise the relation's component is built
    if d["fmt"] == "list":
        rel = [(p, c) for p, c in d["rel"]]
    elif d["fmt"] == "dict":
        rel = [(p, k) for k, ps, _a in d["entries"] for p in (ps or [])]
    else:
        rel = [(p, k) for k, p, _a in d["rows"] if p is not None]
    cyc = U.has_cycle_rel(rel)
    from bigtree.utils.exceptions import TreeError
    try:
        ret = _construct(d)
    except TreeError:
        if not cyc:
            msgs.append(f"acyclic relation {rel} refused with TreeError")
        return msgs
    except Exception:
        return msgs  # empty input, conflicting attribute rows, …: not what the property speaks about
    if cyc:
        msgs.append(f"relation {rel} contains a cycle but the constructor accepted it")
        return msgs
    if not rel:
        return msgs
    objs = _walk(ret)
    rid = name_id.get(ret.node_name)
    comp = U.component(range(d["n"]), rel, rid)
    want_nodes = sorted(names[i] for i in comp)
    if sorted(o.node_name for o in objs) != want_nodes:
        msgs.append(f"built nodes {sorted(o.node_name for o in objs)} != component of the returned node {want_nodes}")
    wantE = sorted({(names[p], names[c]) for p, c in rel if p in comp})
    gotE = sorted((p.node_name, c.node_name) for p in objs for c in p.children)
    if gotE != wantE:
        msgs.append(f"built edges {gotE} != relation {wantE}")
    return msgs


# ---------------------------------------------------------------- shrinking
def shrink(case):
    d = case.data
    if d["op"] == "rt":
        for nd in U.shrink_dag(d):
            if nd["edges"] and U.weakly_connected(nd["n"], nd["edges"]) and nd["start"] < nd["n"]:
                yield Case(_line(nd), nd, case.tags)
        if d["attrs"]:
            for k in list(d["attrs"]):
                nd = dict(d, attrs={q: v for q, v in d["attrs"].items() if q != k})
                yield Case(_line(nd), nd, case.tags)
        if d["sel"] != "all" and d["sel"]:
            nd = dict(d, sel=d["sel"][:-1])
            yield Case(_line(nd), nd, case.tags)
        return
    key = {"list": "rel", "dict": "entries", "rows": "rows"}[d["fmt"]]
    items = d[key]
    for k in range(len(items)):
        nd = dict(d)
        nd[key] = items[:k] + items[k + 1:]
        yield Case(_line(nd), nd, case.tags)


NOT_READY = False
LEVEL_TEXT = ("proof: export completeness, the three round trips (edge set, node names, attributes) and cycle refusal are Lean "
              "theorems about the executable model of the exporters / constructors (BigtreeModel/Dag.lean) for every weakly "
              "connected well-formed DAG with at least one edge and every attribute selection; pandas is modelled as a list of "
              "rows and exercised for real on every DataFrame case of the correspondence check")
LEVEL_NOTE = ("export_each_edge_once: the pairs read off each export are a permutation of the edge list; dict keys / frame names "
              "are exactly the node names; list/dict/rows_roundtrip: the matching constructor succeeds on the export and yields a "
              "well-formed DAG with the same edges and node names, dict/rows also the same attribute values (per key lookup; a null "
              "cell reads back as 'no attribute'); cycle_refused: every relation with a directed cycle is refused with TreeError "
              "(for frames possibly by the earlier ValueError of the duplicate-attribute check), and list_acyclic_accepted: "
              "non-empty acyclic relations are accepted and stored exactly. Rests on the tie: pandas behaviour (column order, NaN "
              "for missing, drop_duplicates, int->float promotion), dag.copy() being structure-preserving, attr_dict key "
              "collisions with the parent key (not generated). An isolated single node exports to an empty list/dict/frame: "
              "outside the claim (the docstring says a DAG needs two nodes)")
TECHNIQUE = ("Lean 4 proof: corollaries of C16 (dag_iterator yields every edge once) + constructor lemma (adding pairs through "
             "child.parents=[parent] stores exactly the acyclic relation, first cycle-closing pair raises) + association-list "
             "lemmas for attributes; differential correspondence check through real pandas with shuffled edge orders, attributes, "
             "renaming attr_dicts, duplicate and cyclic relations; model-free oracle (edge multiset, names, attributes, refusal iff cycle)")
RULE = RULE + ' Fourth session: every order of two (thorough: three) small cyclic relation lists; non-default pandas index for dataframe_to_dag.'
RULE = RULE + ' Fifth session: DAGNode subclasses whose requested attributes are properties; one-off deep probe (spine of 120) through every export and constructor.'
