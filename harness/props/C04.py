"""C04 — traversals visit each node once, in the documented order, honouring filters."""
from __future__ import annotations
import collections, itertools, random, zlib
import core
from core import hx, nats
from runner import Case

THEOREMS = [
    "C04.preorder_eq", "C04.postorder_eq", "C04.levelorder_eq", "C04.zigzag_eq",
    "C04.levelgroup_flatten", "C04.zigzaggroup_flatten", "C04.levelgroup_eq", "C04.zigzaggroup_eq",
    "C04.inorder_eq", "C04.preorder_perm_nodes", "C04.postorder_perm_pre", "C04.levelorder_perm_pre",
    "C04.zigzag_perm_pre", "C04.pre_nodup", "C04.filter_subsequence", "C04.gate_mem_iff",
    "C04.preorder_parent_before_child", "C04.postorder_child_before_parent",
]
RULE = ("history-built trees (built under host ancestors, depths read, detached by del/assignment/parent=None or left "
        "attached) + all ordered trees up to N nodes x every start node x the 6 generic iterators x sampled "
        "(filter, stop, max_depth) + random trees (<=40 nodes, depth<=10, fan-out<=8) + binary trees with "
        "empty slots (incl. in-order); a case is non-trivial when the started subtree has >=3 nodes; "
        "distinct = distinct protocol lines")
EXHAUSTIVE = {"quick": "", "thorough": ""}
MODELLED = ["generators are modelled as the list they yield when driven to exhaustion without interleaved mutation",
            "filter/stop predicates are functions of node identity"]
ASSUMPTIONS = ["predicates passed to the iterators are pure functions of the node"]
KINDS = ["pre", "post", "level", "levelgroup", "zig", "ziggroup"]


# ---------------------------------------------------------------- case construction
def spec_from_shape(shape):
    return core.label(shape, lambda i, d, k, p: "n%d" % i)


def mk_case(kind, spec, start, md, filt, stop, binary=False, tags=(), prep=None):
    """start: pre-order index of the start node; filt: None(all) | list of ids; stop: None | list;
    prep: None | {"up": k, "sib": bool, "mode": "stay"|"del"|"assign"|"parent"} — the tree is first built
    under a chain of k host ancestors, every depth is read once, then it is (unless "stay") detached
    again by the named structural operation before the iterator runs (a history, not a fresh tree)"""
    data = {"kind": kind, "spec": spec, "start": start, "md": md, "filt": filt, "stop": stop, "binary": binary,
            "prep": prep}
    return Case(_line(data), data, tags)


def _sub(spec, start, binary):
    """returns (subspec, depth, first id) of the start node"""
    ctr = itertools.count()
    found = []
    def go(s, depth):
        if s is None:
            return
        i = next(ctr)
        if i == start:
            found.append((s, depth))
        kids = [s[2], s[3]] if binary else s[2]
        for k in kids:
            go(k, depth + 1)
    go(spec, 1)
    return found[0]


def _enc_from(s, first, binary):
    ctr = itertools.count(first)
    if binary:
        def go(t):
            if t is None:
                return "_"
            i = next(ctr)
            return " ".join(["(", str(i), hx(t[0]), "-", go(t[2]), go(t[3]), ")"])
        return go(s)
    def go(t):
        i = next(ctr)
        return " ".join(["(", str(i), hx(t[0]), "-"] + [go(k) for k in t[2]] + [")"])
    return go(s)


def _line(d):
    sub, depth = _sub(d["spec"], d["start"], d["binary"])
    prep = d.get("prep")
    if prep and prep["mode"] == "stay":
        depth += prep["up"]
    filt = "all" if d["filt"] is None else (nats(d["filt"]) if d["filt"] else "empty")
    stop = "none" if d["stop"] is None else (nats(d["stop"]) if d["stop"] else "none")
    head = f"kind={d['kind']} d={depth} md={d['md']} filt={filt} stop={stop}"
    return head + (" B " if d["binary"] else " T ") + _enc_from(sub, d["start"], d["binary"])


def rehydrate(case):
    return Case(case.line, case.data)


def gen(rng: random.Random, tier: str):
    cases = []
    nmax = 7 if tier == "quick" else 8
    # corpus: shapes the property text singles out (deep zigzag, stop below depth 3 in level order)
    deep = [[[[[[[], []], []], [[], []]], []], [[[[]]]]]]
    for kind in KINDS:
        cases.append(mk_case(kind, spec_from_shape(deep), 0, 0, None, None, tags=("corpus",)))
        cases.append(mk_case(kind, spec_from_shape(deep), 0, 0, None, [4, 5], tags=("corpus",)))
    for shape in core.all_shapes_upto(nmax):
        spec = spec_from_shape(shape)
        n = core.shape_size(shape)
        depth = core.shape_depth(shape)
        for start in range(n):
            for kind in KINDS:
                # a few configurations per (tree, start, kind)
                cfgs = [(0, None, None)]
                k = 2 if tier == "quick" else 5
                for _ in range(k):
                    md = rng.choice([0, 0, 1, 2, 3, depth, depth + 1])
                    filt = None if rng.random() < 0.4 else [i for i in range(n) if rng.random() < 0.5]
                    stop = None if rng.random() < 0.4 else [i for i in range(n) if rng.random() < 0.25]
                    cfgs.append((md, filt, stop))
                for md, filt, stop in cfgs:
                    cases.append(mk_case(kind, spec, start, md, filt, stop, tags=("enum", "n=%d" % n, kind)))
    # exhaustive predicates on all trees with <= 4 nodes (thorough: <= 5)
    pmax = 4 if tier == "quick" else 5
    for shape in core.all_shapes_upto(pmax):
        spec = spec_from_shape(shape)
        n = core.shape_size(shape)
        ids = list(range(n))
        subsets = [list(s) for r in range(n + 1) for s in itertools.combinations(ids, r)]
        for kind in (KINDS if tier == "thorough" else ["level", "ziggroup", "pre"]):
            for stop in subsets:
                for filt in ([None] + (subsets if n <= 3 else [rng.choice(subsets)])):
                    for md in (0, 2):
                        cases.append(mk_case(kind, spec, 0, md, filt, stop, tags=("allpred", kind)))
    # random larger trees
    nr = 400 if tier == "quick" else 3000
    for _ in range(nr):
        size = rng.randint(8, 40)
        shape = core.random_shape(rng, size)
        spec = spec_from_shape(shape)
        if rng.random() < 0.3:
            # user attributes called like read-only node properties (instance dict): the depth gate is about the real depth
            def deco(t):
                a = {rng.choice(["depth", "max_depth"]): rng.choice([0, 1, 2, 9])} if rng.random() < 0.5 else {}
                return (t[0], a, [deco(c) for c in t[2]])
            spec = deco(spec)
        depth = core.shape_depth(shape)
        for kind in KINDS:
            start = rng.choice([0, 0, rng.randrange(size)])
            md = rng.choice([0, 0, 0, 2, 3, 4, 5, depth - 1, depth, depth + 1])
            filt = None if rng.random() < 0.3 else [i for i in range(size) if rng.random() < rng.choice([0.2, 0.5, 0.8])]
            stop = None if rng.random() < 0.3 else [i for i in range(size) if rng.random() < rng.choice([0.05, 0.15, 0.3])]
            cases.append(mk_case(kind, spec, start, max(md, 0), filt, stop,
                                 tags=("random", kind, "depth>=5" if depth >= 5 else "depth<5",
                                       "fanout>=3" if core.shape_fanout(shape) >= 3 else "fanout<3")))
    # WIDE and DEEP trees: a parent with 70 children (one of them with a small subtree) and a chain of 120 levels with
    # side leaves - far beyond the fan-out / depth of the fixtures (bulk paths, name tables, depth counters, recursion)
    wide_shape = [[] for _ in range(35)] + [[[], [[]]]] + [[] for _ in range(34)]
    def chain(k):
        return [] if k == 0 else ([chain(k - 1), []] if k % 30 == 7 else [chain(k - 1)])
    for shape, tg in ((wide_shape, "wide"), (chain(119), "deep")):
        spec = spec_from_shape(shape)
        size = core.shape_size(shape)
        for kind in KINDS:
            for start, md in ((0, 0), (0, 2), (0, 60), (size // 2, 0), (size // 2, size // 2 + 3 if tg == "deep" else 3)):
                filt = None if md == 0 else [i for i in range(size) if i % 3]
                stop = None if md else [size - 2, size // 3]
                cases.append(mk_case(kind, spec, start, md, filt, stop, tags=("corpus", tg, kind)))
    # history-built trees: built under host ancestors, depths read, then detached (or left attached)
    for _ in range(300 if tier == "quick" else 3000):
        size = rng.randint(2, 14)
        shape = core.random_shape(rng, size)
        spec = spec_from_shape(shape)
        depth = core.shape_depth(shape)
        prep = {"up": rng.randint(1, 3), "sib": rng.random() < 0.5, "mode": rng.choice(["stay", "del", "assign", "parent"])}
        for kind in KINDS:
            start = rng.choice([0, 0, rng.randrange(size)])
            md = rng.choice([0, 1, 2, 3, depth, depth + prep["up"]])
            stop = None if rng.random() < 0.6 else [i for i in range(size) if rng.random() < 0.15]
            filt = None if rng.random() < 0.6 else [i for i in range(size) if rng.random() < 0.6]
            cases.append(mk_case(kind, spec, start, md, filt, stop, prep=prep, tags=("history", "prep=" + prep["mode"], kind)))
    for _ in range(60 if tier == "quick" else 600):
        nb = rng.randint(2, 10)
        spec = core.label_bshape(core.random_bshape(rng, nb))
        prep = {"up": rng.randint(1, 2), "sib": rng.random() < 0.5, "mode": rng.choice(["stay", "del", "assign", "parent"])}
        for kind in KINDS + ["inorder"]:
            md = rng.choice([0, 1, 2, 3, 4])
            cases.append(mk_case(kind, spec, rng.choice([0, rng.randrange(nb)]), md, None, None, binary=True, prep=prep,
                                 tags=("history-binary", "prep=" + prep["mode"], kind)))
    # binary trees with holes
    bmax = 5 if tier == "quick" else 6
    for nb in range(1, bmax + 1):
        for bs in core.all_bshapes(nb):
            spec = core.label_bshape(bs)
            for kind in KINDS + ["inorder"]:
                for start in ([0] if tier == "quick" else range(nb)):
                    md = rng.choice([0, 0, 2, 3])
                    filt = None if rng.random() < 0.5 else [i for i in range(nb) if rng.random() < 0.6]
                    stop = None if (kind == "inorder" or rng.random() < 0.5) else [i for i in range(nb) if rng.random() < 0.2]
                    cases.append(mk_case(kind, spec, start, md, filt, stop, binary=True, tags=("binary", kind)))
    for _ in range(40 if tier == "quick" else 400):
        nb = rng.randint(6, 25)
        spec = core.label_bshape(core.random_bshape(rng, nb))
        for kind in KINDS + ["inorder"]:
            md = rng.choice([0, 0, 3, 4])
            filt = None if rng.random() < 0.5 else [i for i in range(nb) if rng.random() < 0.6]
            stop = None if (kind == "inorder" or rng.random() < 0.5) else [i for i in range(nb) if rng.random() < 0.15]
            cases.append(mk_case(kind, spec, rng.choice([0, rng.randrange(nb)]), md, filt, stop, binary=True,
                                 tags=("binary-random", kind)))
    return cases


def nontrivial(case):
    d = case.data
    sub, _ = _sub(d["spec"], d["start"], d["binary"])
    def size(s):
        if s is None:
            return 0
        return 1 + sum(size(k) for k in ([s[2], s[3]] if d["binary"] else s[2]))
    return size(sub) >= 3


# ---------------------------------------------------------------- implementation side
def _build(d):
    if d["binary"]:
        from props import _d_hist as H
        root, nodes = core.build_binary_tree(d["spec"], cls=H.hooked_bin() if d.get("prep") else None)
    else:
        # a third of the plain trees are made of a user class with value equality (equal, distinct nodes in one tree)
        root, nodes = core.build_node_tree(d["spec"], cls=core.eq_class() if not d.get("prep") and core.eq_share(d["spec"]) else None)
    prep = d.get("prep")
    if prep:
        import bigtree
        cls = bigtree.BinaryNode if d["binary"] else bigtree.Node
        hosts = [cls("9%d" % i) if d["binary"] else cls("h%d" % i) for i in range(prep["up"])]
        for a, b in zip(hosts, hosts[1:]):
            b.parent = a
        other = cls("77") if d["binary"] else cls("hs")
        if prep.get("sib"):
            other.parent = hosts[-1]
        root.parent = hosts[-1]
        # read every depth once in the host tree (what any earlier traversal / print would do)
        _ = [n.depth for n in nodes], hosts[0].max_depth
        _ = list(bigtree.preorder_iter(hosts[0], max_depth=prep["up"] + 1))
        # ... and run every iterator once over the whole host tree, with and without a depth bound (whatever they
        # remember about the nodes - depth memos, cached child tuples - is from BEFORE the structural edit below)
        big = prep["up"] + len(nodes) + 1
        for fn in (bigtree.preorder_iter, bigtree.postorder_iter, bigtree.levelorder_iter, bigtree.levelordergroup_iter,
                   bigtree.zigzag_iter, bigtree.zigzaggroup_iter) + ((bigtree.inorder_iter,) if d["binary"] else ()):
            for md in (0, big, prep["up"] + 2):
                _ = list(fn(hosts[0], max_depth=md))
        mode = prep["mode"]
        if mode == "del":
            del hosts[-1].children
        elif mode == "assign":
            hosts[-1].children = [other, None] if d["binary"] else [other]
        elif mode == "parent":
            root.parent = None
        nodes[0]._keep_hosts = hosts  # keep the host chain alive
        if d["binary"]:
            # children assignments that a user hook refuses AFTER reading the children (rolled back: nothing changes)
            from props import _d_hist as H
            for x in [n for n in nodes if any(c is not None for c in n.children)][:3]:
                H.ARM["point"], H.ARM["op"] = "post", ["bhook", 0, 0, 0, "post"]
                try:
                    x.children = [x.right, x.left]
                except Exception:  # noqa: BLE001 - the roll-back is the point
                    pass
                finally:
                    H.ARM["point"] = H.ARM["op"] = None
            # a child is taken over by ANOTHER node through that node's own left / right setter and taken back the same
            # way, with reads of both child tuples before, between and after: the tree is the one of the spec again,
            # every node involved has been a donor once (a cached child tuple that a stealing setter does not reset)
            done = 0
            for x in nodes:
                if done >= 2:
                    break
                for s in (0, 1):
                    c = x.children[s]
                    if c is None:
                        continue
                    below = set(id(n) for n in bigtree.preorder_iter(c))
                    ys = [y for y in nodes if id(y) not in below and y is not x and any(k is None for k in y.children)]
                    if not ys:
                        continue
                    y = ys[len(ys) // 2]
                    t = 0 if y.children[0] is None else 1
                    _ = x.children, y.children, list(bigtree.preorder_iter(nodes[0]))
                    setattr(y, ("left", "right")[t], c)
                    _ = x.children, y.children, list(bigtree.levelorder_iter(nodes[0]))
                    setattr(x, ("left", "right")[s], c)
                    _ = x.children
                    done += 1
                    break
    return root, nodes


_ABANDONED = collections.deque(maxlen=40)


def _call(d, nodes):
    import bigtree
    ids = core.IdMap(nodes)
    fset = None if d["filt"] is None else set(d["filt"])
    sset = None if d["stop"] is None else set(d["stop"])
    filt = None if fset is None else (lambda n: ids(n) in fset)
    stop = None if sset is None else (lambda n: ids(n) in sset)
    start = nodes[d["start"]]
    k = d["kind"]
    fns = {"pre": bigtree.preorder_iter, "post": bigtree.postorder_iter, "level": bigtree.levelorder_iter,
           "levelgroup": bigtree.levelordergroup_iter, "zig": bigtree.zigzag_iter, "ziggroup": bigtree.zigzaggroup_iter,
           "inorder": bigtree.inorder_iter}
    if zlib.crc32(repr((k, d["start"], d["md"], len(nodes))).encode()) % 2 == 0:
        # an earlier traversal of the same tree that the caller abandoned after one or two items (a `break`, a
        # `next(iter(...))`), and one that is still suspended: whatever they leave behind must not reach this call
        for kind in (k, "post" if k != "post" else "pre"):
            if kind == "inorder" and not hasattr(nodes[0], "left"):
                continue
            try:
                it = iter(fns[kind](nodes[0]))
                next(it, None)
                next(it, None)
                _ABANDONED.append(it)
            except Exception:  # noqa: BLE001
                pass
    if k == "inorder":
        return ids, list(bigtree.inorder_iter(start, filter_condition=filt, max_depth=d["md"]))
    fn = fns[k]
    return ids, list(fn(start, filter_condition=filt, stop_condition=stop, max_depth=d["md"]))


def impl(case):
    d = case.data
    _root, nodes = _build(d)
    ids, res = _call(d, nodes)
    if d["kind"] in ("levelgroup", "ziggroup"):
        return "|".join(nats(ids(n) for n in g) for g in res)
    return nats(ids(n) for n in res)


# ---------------------------------------------------------------- oracle (model-free)
def oracle(case):
    """first-principles reading of the statement, from the real objects' parent/children links"""
    d = case.data
    _root, nodes = _build(d)
    ids, res = _call(d, nodes)
    start = nodes[d["start"]]
    md = d["md"]
    fset = None if d["filt"] is None else set(d["filt"])
    sset = set() if d["stop"] is None else set(d["stop"])
    kids = lambda n: [c for c in n.children if c is not None]
    k = d["kind"]
    def dep(n):  # depth from first principles: one plus the number of parent hops
        k_ = 1
        while n.parent is not None:
            n = n.parent
            k_ += 1
        return k_
    def ok(n):  # gate
        return (md == 0 or dep(n) <= md) and (k == "inorder" or ids(n) not in sset)
    def passes(n):
        return fset is None or ids(n) in fset
    # kept nodes: start's subtree minus subtrees rooted at gated-out nodes
    msgs = []
    def pre(n):
        if not ok(n):
            return []
        out = [n]
        for c in kids(n):
            out += pre(c)
        return out
    def post(n):
        if not ok(n):
            return []
        out = []
        for c in kids(n):
            out += post(c)
        return out + [n]
    def inorder(n):
        if n is None or not ok(n):
            return []
        return inorder(n.left) + [n] + inorder(n.right)
    def layers(n):
        out = []
        cur = [n] if ok(n) else []
        while cur:
            out.append(cur)
            cur = [c for p in cur for c in kids(p) if ok(c)]
        return out
    if k == "pre":
        want = [n for n in pre(start) if passes(n)]
    elif k == "post":
        want = [n for n in post(start) if passes(n)]
    elif k == "inorder":
        want = [n for n in inorder(start) if passes(n)]
    elif k in ("level", "levelgroup"):
        ls = layers(start)
        want = [n for l in ls for n in l if passes(n)]
    else:
        ls = [l[::-1] if i % 2 else l for i, l in enumerate(layers(start))]
        want = [n for l in ls for n in l if passes(n)]
    if k in ("levelgroup", "ziggroup"):
        flat = [n for g in res for n in g]
        if [ids(n) for n in flat] != [ids(n) for n in want]:
            msgs.append(f"{k}: flattened groups {[ids(n) for n in flat]} != expected {[ids(n) for n in want]}")
        # one group per depth reached: groups correspond to consecutive depths from the start depth; a group's
        # members all have that depth
        for gi, g in enumerate(res):
            for n in g:
                if dep(n) != dep(start) + gi:
                    msgs.append(f"{k}: group {gi} contains node {ids(n)} of depth {dep(n)}")
        nl = len(ls)
        # the code emits one group per level it reaches; reached levels are the kept layers, plus possibly one
        # trailing level whose candidates were all refused by the stop condition
        if not (nl <= len(res) <= nl + 1) and not (nl == 0 and len(res) == 1):
            msgs.append(f"{k}: {len(res)} groups for {nl} kept layers")
        if len(res) > max(nl, 1) and any(len(g) for g in res[nl:]):
            msgs.append(f"{k}: non-empty group beyond the kept layers")
    else:
        got = [ids(n) for n in res]
        if got != [ids(n) for n in want]:
            msgs.append(f"{k}: yielded {got} != expected {[ids(n) for n in want]}")
    got_all = [ids(n) for g in res for n in g] if k in ("levelgroup", "ziggroup") else [ids(n) for n in res]
    if len(set(got_all)) != len(got_all):
        msgs.append(f"{k}: a node is yielded twice: {got_all}")
    return msgs


# ---------------------------------------------------------------- shrinking
def shrink(case):
    d = case.data
    binary = d["binary"]
    spec = d["spec"]
    # drop filter / stop / max_depth
    for key, val in (("filt", None), ("stop", None), ("md", 0)):
        if d[key] != val:
            nd = dict(d); nd[key] = val
            yield Case(_line(nd), nd, case.tags)
    if binary:
        return
    # remove one leaf (not the start node), renumbering ids
    nodes = core.spec_nodes(spec)
    for idx in range(len(nodes) - 1, 0, -1):
        addr, s = nodes[idx]
        if s[2] or idx == d["start"]:
            continue
        def remove(t, a):
            if len(a) == 1:
                return (t[0], t[1], t[2][:a[0]] + t[2][a[0] + 1:])
            return (t[0], t[1], [remove(c, a[1:]) if k == a[0] else c for k, c in enumerate(t[2])])
        ns = remove(spec, addr)
        ren = lambda xs: None if xs is None else [x - 1 if x > idx else x for x in xs if x != idx]
        nd = dict(d, spec=ns, filt=ren(d["filt"]), stop=ren(d["stop"]),
                  start=d["start"] - 1 if d["start"] > idx else d["start"])
        yield Case(_line(nd), nd, case.tags)

NOT_READY = False
LEVEL_TEXT = ("Proof. Lean 4 theorems (C04.*) show, for every tree, start depth, filter/stop predicate and max_depth, that the "
              "implementation-shaped models of all seven iterators (recursive pre/post with the triple gate, the next_level "
              "loops of level-order and zigzag with the reversal flag, the grouped variants with their 'next group' rule, "
              "in-order with empty slots) equal the first-principles specification: gate the tree (remove exactly the subtrees "
              "rooted at stopped / too deep nodes), traverse (pre, post, layers, alternately reversed layers), filter; groups = "
              "layers; every iterator is a permutation of the pre-order and duplicate-free for distinct identities. The model is "
              "tied to /repo on every run by differential testing of the real iterators against the compiled model on all "
              "ordered trees up to 6/7 nodes x every start node, exhaustive predicate subsets on small trees, random trees to "
              "depth 10 / fan-out 8 and binary trees with holes; a model-free oracle re-derives the expected sequence from the "
              "real objects.")
LEVEL_NOTE = ("Trusted: Lean kernel, axioms <= {propext, Classical.choice, Quot.sound} (audited each run), the hand-written model's "
              "correspondence to iterators.py as established by the tie (not proved), CPython. Generators are modelled as the lists "
              "they yield when exhausted without interleaved mutation; predicates are functions of node identity.")
TECHNIQUE = "Lean 4 proof (structural/fuel induction: impl-shaped traversal = specification) + correspondence check against the real iterators"
RULE = RULE + " Fifth session: a third of the plain trees are built from a user class with value equality (equal, distinct nodes in one tree); in binary preps a child is taken over through another node's left / right setter and taken back, with reads of both child tuples in between."
