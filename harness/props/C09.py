"""C09 — search returns exactly the nodes that satisfy the query."""
from __future__ import annotations
import itertools, random, zlib
import core
from core import hx, nats
from runner import Case
from props import _d_hist as H

THEOREMS = [
    "C09.findall_eq", "C09.findall_count_contract", "C09.findall_nodup", "C09.find_eq",
    "C09.find_names_eq", "C09.find_attrs_eq", "C09.find_paths_eq", "C09.find_children_eq",
    "C09.find_children_binary_eq", "C09.find_full_path_iff", "C09.relative_eq_spec",
    "C09.relative_paths_eq", "C09.find_full_path_path_name", "C09.preorder_is_iter_preorder",
    "C09.find_full_path_iff_multi", "C09.find_full_path_path_name_multi", "C09.join_split_multi",
]
PROOF_IMPORTS = ["BigtreeProofs.Properties.C09"]
RULE = ("each of the 14 search functions from every start node of: all ordered trees up to N nodes (deterministic labelling "
        "over a, b, ab, ba with names repeated across branches) and random trees (<=30 nodes, names from a, b, ab, ba, aa, "
        "'a b', 'a.b' unique among siblings, a few with duplicated sibling names or the separator inside a name; int / str / "
        "bool / None attributes; separators / . \\ | - and ::), Node and BinaryNode with empty slots; queries drawn from "
        "existing names / full paths / string suffixes of paths / near-misses; conditions = id sets; min_count, max_count "
        "in 0..3; relative paths of 1-6 components over . .. * names and near-misses. Non-trivial = the tree has >=3 nodes; "
        "distinct = distinct protocol lines; plus HISTORIES: trees built node-by-node / list_to_tree / add_path_to_tree, a warm-up round of searches on every node, then edits (node.name = ..., sibling name swaps, re-parenting, detach + re-attach, children reordering, refused re-parentings), then the compared searches - the model receives only the final tree, so anything the code remembers from before the edits is a disagreement (every single rename / swap / move on all trees with <=4/5 nodes, random scripts of 1-6 edits)")
EXHAUSTIVE = {
    "quick": "all ordered trees with <=4 nodes (deterministic labelling) x every start node x every relative path with <=3 "
             "components over {., .., *, a, b} (find_relative_paths); the same trees x every start x findall(all nodes) x all "
             "(min_count, max_count) in 0..3 x max_depth 0..3",
    "thorough": "all ordered trees with <=5 nodes (deterministic labelling) x every start node x every relative path with <=4 "
                "components over {., .., *, a, b} (find_relative_paths); the same trees x every start x findall(all nodes) x all "
                "(min_count, max_count) in 0..3 x max_depth 0..4",
}
MODELLED = [
    "a node is a root tree plus an address; conditions passed to findall/find/find_children/find_child are functions of node identity (id sets)",
    "strings are lists of characters; str.rstrip/lstrip (character-set strip), str.split (non-overlapping occurrences of the separator string), "
    "str.endswith/startswith and the `in` test are modelled in Lean and exercised by the tie",
    "attribute values are None | int | str | bool, compared with Python's == (True == 1)",
    "the absolute-path branch of find_relative_paths (query starts with the separator) is out of scope (DESIGN section 5) and never generated",
]
ASSUMPTIONS = [
    "theorems about paths (find_full_path_iff, find_full_path_iff_multi) assume a non-empty separator sharing no character with "
    "any name (one character: it occurs in no name), non-empty names and sibling-unique names (what Node enforces); names that "
    "contain separator characters and duplicated sibling names are covered by the tie only",
]

ALPHA = ["a", "b", "ab", "ba", "aa", "a b", "a.b"]
DET = ["a", "b", "ab", "ba"]
SEPS = ["/", "/", "/", ".", "\\", "|", "-", "::"]
LIST_FNS = {"findall", "find_names", "find_paths", "find_attrs", "find_children", "find_relative_paths"}
FNS = ["findall", "find", "find_name", "find_names", "find_relative_path", "find_relative_paths", "find_full_path",
       "find_path", "find_paths", "find_attr", "find_attrs", "find_children", "find_child", "find_child_by_name"]


# ---------------------------------------------------------------- specs
def bsize(s):
    return 0 if s is None else 1 + bsize(s[2]) + bsize(s[3])


def bnodes(s, out=None):
    """pre-order list of binary spec nodes"""
    if out is None:
        out = []
    if s is not None:
        out.append(s)
        bnodes(s[2], out)
        bnodes(s[3], out)
    return out


def size_of(d):
    return bsize(d["spec"]) if d["binary"] else core.spec_size(d["spec"])


def det_label(shape):
    """deterministic labelling: root a; child k of a node at depth d is DET[(k + d - 1) % 4] (+ index when fan-out > 4)"""
    def go(s, nm, depth):
        kids = []
        for k, c in enumerate(s):
            cn = DET[(k + depth - 1) % 4] + ("" if k < 4 else str(k))
            kids.append(go(c, cn, depth + 1))
        return (nm, {}, kids)
    return go(shape, "a", 1)


def rand_attrs(rng):
    at = {}
    if rng.random() < 0.6:
        at["age"] = rng.choice([0, 1, 2, 3, 1, 2])
    if rng.random() < 0.5:
        at["tag"] = rng.choice(["x", "y", "1", ""])
    if rng.random() < 0.3:
        at["flag"] = rng.choice([True, False, None, 1, 0])
    if rng.random() < 0.15:
        # user attributes that happen to be called like read-only node properties (they live in the instance dict and
        # are never queried by the cases; the real `depth` / `max_depth` of the node must not be confused with them)
        at[rng.choice(["depth", "max_depth", "is_leaf"])] = rng.choice([0, 1, 2, 7])
    return at


def rand_spec(rng, shape, alphabet=ALPHA):
    s = core.label_sibling_unique(shape, rng, alphabet)
    def go(t):
        return (t[0], rand_attrs(rng), [go(c) for c in t[2]])
    return go(s)


def rand_bspec(rng, bshape, alphabet=ALPHA):
    def go(s, forbid):
        if s is None:
            return None
        nm = rng.choice([x for x in alphabet if x != forbid])
        ln = go(s[0], None)
        rn = go(s[1], ln[0] if ln else None)
        return (nm, rand_attrs(rng), ln, rn)
    return go(bshape, None)


def names_of(d):
    if d["binary"]:
        return [s[0] for s in bnodes(d["spec"])]
    return [s[0] for _a, s in core.spec_nodes(d["spec"])]


def paths_of(d):
    """full path (list of names) of every node, pre-order"""
    out = []
    if d["binary"]:
        def go(s, pre):
            if s is None:
                return
            p = pre + [s[0]]
            out.append(p)
            go(s[2], p)
            go(s[3], p)
        go(d["spec"], [])
    else:
        def go(s, pre):
            p = pre + [s[0]]
            out.append(p)
            for c in s[2]:
                go(c, p)
        go(d["spec"], [])
    return out


# ---------------------------------------------------------------- protocol
def _line(d):
    parts = [f"fn={d['fn']}", f"start={d['start']}", "sep=" + hx(d["sep"])]
    if d.get("cond") is not None:
        c = d["cond"]
        parts.append("cond=" + (c if isinstance(c, str) else (nats(c) if c else "none")))
    for key in ("name", "q", "k"):
        if d.get(key) is not None:
            parts.append(f"{key}=" + hx(d[key]))
    if "v" in d and d.get("k") is not None:
        parts.append("v=" + core.enc_val(d["v"]))
    for key in ("md", "min", "max"):
        if d.get(key):
            parts.append(f"{key}={d[key]}")
    if d["binary"]:
        parts.append("B " + core.enc_btree(d["spec"]))
    else:
        parts.append("T " + core.enc_tree(d["spec"]))
    return " ".join(parts)


def mk(fn, base, tags=(), **kw):
    d = dict(base)
    d["fn"] = fn
    d.update(kw)
    return Case(_line(d), d, tuple(tags) + (fn,))


def rehydrate(case):
    return Case(case.line, case.data)


# ---------------------------------------------------------------- generators
def _rand_cond(rng, n):
    r = rng.random()
    if r < 0.15:
        return "all"
    if r < 0.22:
        return "none"
    p = rng.choice([0.15, 0.4, 0.7])
    return [i for i in range(n) if rng.random() < p]


def _near(rng, s):
    """a near-miss of a string"""
    r = rng.random()
    if not s or r < 0.2:
        return s + rng.choice(["a", "b", " ", "x"])
    if r < 0.4:
        return s[:-1]
    if r < 0.6:
        return s[1:]
    if r < 0.8:
        i = rng.randrange(len(s))
        return s[:i] + rng.choice("abx ") + s[i + 1:]
    return s.upper()


def _path_queries(rng, base, k):
    sep = base["sep"]
    paths = paths_of(base)
    out = []
    for _ in range(k):
        p = rng.choice(paths)
        full = sep + sep.join(p)
        r = rng.random()
        if r < 0.2:
            q = full
        elif r < 0.45:
            j = rng.randrange(len(p))
            q = rng.choice(["", sep]) + sep.join(p[j:])          # suffix at a component boundary
        elif r < 0.65:
            q = full[rng.randrange(len(full) + 1):]               # arbitrary string suffix
        elif r < 0.8:
            q = _near(rng, full[rng.randrange(len(full)):])
        elif r < 0.9:
            q = rng.choice(names_of(base))
        else:
            q = rng.choice(["", sep, "c", sep + "c"])
        if rng.random() < 0.25:
            q = q + sep * rng.randint(1, 2)
        out.append(q)
    return out


def _full_queries(rng, base, k):
    sep = base["sep"]
    paths = paths_of(base)
    out = []
    for _ in range(k):
        p = list(rng.choice(paths))
        r = rng.random()
        if r < 0.45:
            pass
        elif r < 0.6:
            p = p + [rng.choice(ALPHA + ["c"])]                    # one step too far / maybe existing
        elif r < 0.7 and len(p) > 1:
            j = rng.randrange(1, len(p))
            p[j] = _near(rng, p[j])                               # a missing component in the middle
        elif r < 0.8:
            p[0] = rng.choice(ALPHA + ["c"])                      # maybe a wrong root
        elif r < 0.87 and len(p) > 1:
            p = p[1:]                                             # path without the root
        elif r < 0.93:
            j = rng.randrange(len(p) + 1)
            p = p[:j] + [""] + p[j:]                              # doubled separator
        else:
            p = rng.choice([[""], ["", ""], [p[-1]]])
        q = sep.join(p)
        lead = rng.choice(["", "", sep, sep, sep * 2])
        trail = rng.choice(["", "", "", sep, sep * 2])
        out.append(lead + q + trail)
    return out


def _rel_queries(rng, base, k):
    sep = base["sep"]
    names = sorted(set(names_of(base)))
    out = []
    while len(out) < k:
        ncomp = rng.choice([1, 1, 2, 2, 3, 3, 4, 5, 6])
        comps = []
        style = rng.random()
        for _ in range(ncomp):
            r = rng.random()
            if style < 0.15:
                comps.append(rng.choice(["..", "..", ".", rng.choice(names)]))   # climbs, often past the root
            elif r < 0.15:
                comps.append(".")
            elif r < 0.35:
                comps.append("..")
            elif r < 0.55:
                comps.append("*")
            elif r < 0.9:
                comps.append(rng.choice(names))
            elif r < 0.96:
                comps.append(rng.choice(["c", "", "a*", "**", "...", "A"]))
            else:
                comps.append(_near(rng, rng.choice(names)))
        q = sep.join(comps) + (sep * rng.randint(1, 2) if rng.random() < 0.2 else "")
        if sep != "" and q.startswith(sep):
            continue          # absolute branch: out of scope
        out.append(q)
    return out


def _cases_for_tree(rng, base, starts, per, tags):
    """a batch of cases for one tree: every function from each of `starts`"""
    out = []
    n = size_of(base)
    names = names_of(base)
    depth = max(len(p) for p in paths_of(base))
    mds = [0, 0, 1, 2, 3, depth, depth + 1]
    for st in starts:
        b = dict(base, start=st)
        for _ in range(per):
            mn, mx = rng.randrange(4), rng.randrange(4)
            out.append(mk("findall", b, tags, cond=_rand_cond(rng, n), md=rng.choice(mds), min=mn, max=mx))
            out.append(mk("find", b, tags, cond=_rand_cond(rng, n) if rng.random() < 0.5 else [rng.randrange(n)], md=rng.choice(mds)))
            nm = rng.choice(names) if rng.random() < 0.8 else _near(rng, rng.choice(names))
            out.append(mk("find_name", b, tags, name=nm, md=rng.choice(mds)))
            out.append(mk("find_names", b, tags, name=nm, md=rng.choice(mds)))
            for q in _path_queries(rng, b, 2):
                out.append(mk("find_path", b, tags, q=q))
                out.append(mk("find_paths", b, tags, q=q))
            for q in _full_queries(rng, b, 2):
                out.append(mk("find_full_path", b, tags, q=q))
            k = rng.choice(["age", "age", "tag", "flag", "zzz"])
            v = rng.choice({"age": [0, 1, 2, 3, True, "1", None], "tag": ["x", "y", "1", "", 1, None],
                            "flag": [True, False, None, 1, 0], "zzz": [None, 0, ""]}[k])
            out.append(mk("find_attr", b, tags, k=k, v=v, md=rng.choice(mds)))
            out.append(mk("find_attrs", b, tags, k=k, v=v, md=rng.choice(mds)))
            out.append(mk("find_children", b, tags, cond=_rand_cond(rng, n), min=rng.randrange(4), max=rng.randrange(4)))
            out.append(mk("find_child", b, tags, cond=_rand_cond(rng, n)))
            out.append(mk("find_child_by_name", b, tags, name=nm))
            for q in _rel_queries(rng, b, 2):
                out.append(mk("find_relative_paths", b, tags, q=q, min=rng.choice([0, 0, 1, 2, 3]), max=rng.choice([0, 0, 1, 2, 3])))
                out.append(mk("find_relative_path", b, tags, q=q))
    return out


def _hist_base(rng, init, edits, sep, build, binary=False):
    warm = [([rng.randrange(64) for _ in range(3)] if rng.random() < 0.5 else []) for _ in edits]
    fspec = H.bfinal(init, edits) if binary else H.final(init, edits)[0]
    return {"spec": fspec, "binary": binary, "sep": sep,
            "hist": {"init": init, "edits": edits, "warm": warm, "build": build,
                     "sep0": sep if rng.random() < 0.7 else rng.choice(["/", "|", "."])}}


def _gen_histories(rng, quick):
    out = []
    # systematic: every single rename / sibling swap / move on all small trees, then every full path,
    # every child name (old and new) and the relative paths to every node
    for shape in core.all_shapes_upto(4 if quick else 5):
        init = det_label(shape)
        anodes = H.from_spec(init)
        n = len(anodes)
        singles = []
        for a in anodes:
            taken = {s.name for s in a.parent.kids} if a.parent else set()
            for nm in DET + ["c"]:
                if nm != a.name and nm not in taken:
                    singles.append(["rename", a.idx, nm])
            if a.parent:
                for b in a.parent.kids:
                    if b.idx > a.idx:
                        singles.append(["swapnames", a.idx, b.idx])
                for p in anodes:
                    if p is not a.parent and not H._in_subtree(a, p) and all(s.name != a.name for s in p.kids):
                        singles.append(["move", a.idx, p.idx])
        if quick and len(singles) > 12:
            singles = rng.sample(singles, 12)
        for e in singles:
            for build in (("nodes", "list") if quick else ("nodes", "list", "addpath")):
                base = _hist_base(rng, init, [e], "/", build)
                base["hist"]["sep0"] = "/"
                tags = ("hist-single", e[0], "build=" + build)
                paths = paths_of(base)
                old_paths = H.spec_paths(init)
                names = sorted(set(names_of(base)) | {s.name for s in anodes})
                b0 = dict(base, start=0)
                for q in sorted(set("/".join(p) for p in paths) | set(old_paths)):
                    out.append(mk("find_full_path", b0, tags, q=q))
                    rel = q.split("/", 1)[1] if "/" in q else "."
                    out.append(mk("find_relative_paths", b0, tags, q=rel))
                for st in range(n):
                    for nm in names:
                        out.append(mk("find_child_by_name", dict(base, start=st), tags, name=nm))
    # a WIDE parent (60 children): one child leaves and another node arrives (the number of children is what it was),
    # one child is renamed - then look-ups of the old, the new and the untouched names through that parent
    wide = ("r", {}, [("k%d" % i, {}, [("g", {}, [])] if i == 0 else []) for i in range(60)])
    wn = H.from_spec(wide)
    idx = {x.name: x.idx for x in wn}
    for build in ("nodes", "list"):
        for edits in ([["move", idx["k5"], idx["k6"]], ["move", idx["g"], 0]],
                      [["rename", idx["k7"], "zz"]],
                      [["move", idx["k5"], idx["k6"]], ["move", idx["g"], 0], ["rename", idx["k9"], "k5"]]):
            base = _hist_base(rng, wide, edits, "/", build)
            base["hist"]["sep0"] = "/"
            tags = ("hist-wide", "build=" + build)
            b0 = dict(base, start=0)
            for nm in ("k5", "g", "k7", "zz", "k9", "k6", "k59", "k0"):
                out.append(mk("find_child_by_name", b0, tags, name=nm))
                out.append(mk("find_full_path", b0, tags, q="r/" + nm))
                out.append(mk("find_relative_paths", b0, tags, q=nm))
            out.append(mk("find_full_path", b0, tags, q="r/k6/k5"))
            out.append(mk("find_full_path", b0, tags, q="r/k0/g"))
    # random histories, every function
    for _ in range(40 if quick else 400):
        size = rng.randint(3, 20)
        shape = core.random_shape(rng, size)
        sep = rng.choice(SEPS)
        alphabet = [x for x in ALPHA if not any(ch in x for ch in sep + "/")]
        init = rand_spec(rng, shape, alphabet)
        if any(len({c[0] for c in s[2]}) != len(s[2]) for _a, s in core.spec_nodes(init)):
            continue      # fan-out larger than the alphabet gave a clash; not a valid Node tree
        build = rng.choice(["nodes", "nodes", "list", "addpath"])
        kinds = ("rename", "swapnames", "move", "reattach", "reorder", "failmove", "delre")
        if build == "nodes":     # objects of a user subclass: assignments rolled back because a (reading) hook raises
            kinds += ("hookmove", "hookkids")
        edits = H.random_edits(rng, init, rng.randint(1, 6), alphabet + ["c"], kinds=kinds)
        base = _hist_base(rng, init, edits, sep, build)
        starts = [0] + [rng.randrange(size) for _ in range(2)]
        out += _cases_for_tree(rng, base, starts, 1, ("hist-random", "build=" + build) + tuple(sorted({e[0] for e in edits})))
    for _ in range(15 if quick else 150):
        nb = rng.randint(2, 12)
        init = rand_bspec(rng, core.random_bshape(rng, nb), DET + ["aa"])
        edits = H.random_bedits(rng, init, rng.randint(1, 4), DET + ["aa", "c"])
        if not edits:
            continue
        base = _hist_base(rng, init, edits, "/", "nodes", binary=True)
        base["hist"]["sep0"] = "/"
        out += _cases_for_tree(rng, base, [0, rng.randrange(nb)], 1, ("hist-binary",))
    return out


def gen(rng: random.Random, tier: str):
    cases = []
    quick = tier == "quick"
    # ---- corpus
    # D8 (fixed): wildcard over an empty slot of a BinaryNode
    hole = ("1", {}, None, ("2", {}, None, None))
    b8 = {"spec": hole, "binary": True, "sep": "/", "start": 0}
    for q in ("*", "*/..", "*/.", "*/*", "2/..", "./*"):
        cases.append(mk("find_relative_paths", b8, ("corpus", "D8"), q=q))
        cases.append(mk("find_relative_path", b8, ("corpus", "D8"), q=q))
    # suffix-related names: find_path("b") must also see "ab"; several matches => SearchError
    sfx = ("a", {}, [("ab", {}, [("b", {}, [])]), ("b", {}, []), ("ba", {}, [("ab", {}, [])])])
    bs = {"spec": sfx, "binary": False, "sep": "/"}
    for st in range(6):
        for q in ("b", "/b", "ab", "a/b", "ab/b", "/a/b", "a", "/a", "b/", ""):
            cases.append(mk("find_paths", dict(bs, start=st), ("corpus", "suffix-names"), q=q))
            cases.append(mk("find_path", dict(bs, start=st), ("corpus", "suffix-names"), q=q))
        for q in ("a/b", "/a/b", "a/ab/b", "/a/ab/b/", "a/ab", "ab/b", "b", "a/c", "a/ab/b/c", "//a//b"):
            cases.append(mk("find_full_path", dict(bs, start=st), ("corpus", "suffix-names"), q=q))
    # a tree far deeper than the small-scope part reaches: a chain of 70 levels whose bottom node has three children with
    # leaves of repeated names below them (a walk that changes strategy below some depth and mixes the sibling order up)
    def leafy(nm):
        return (nm, {"age": 1}, [("a", {"age": 2}, []), ("b", {}, []), ("a b", {"age": 2}, [])])
    deep = ("b0", {}, [leafy("x"), leafy("ab"), leafy("y")])
    for i in range(69):
        deep = ("c%d" % i, {}, [deep] + ([("a", {"age": 2}, [])] if i % 23 == 5 else []))
    cases += _cases_for_tree(rng, {"spec": deep, "binary": False, "sep": "/"}, [0, 3, 60], 2, ("corpus", "deep-70"))
    # ---- exhaustive: relative paths and count contract on small trees
    nmax, cmax, mdmax = (4, 3, 3) if quick else (5, 4, 4)
    comps = [".", "..", "*", "a", "b"]
    rels = ["/".join(t) for k in range(1, cmax + 1) for t in itertools.product(comps, repeat=k)]
    for shape in core.all_shapes_upto(nmax):
        spec = det_label(shape)
        n = core.shape_size(shape)
        for st in range(n):
            b = {"spec": spec, "binary": False, "sep": "/", "start": st}
            for q in rels:
                cases.append(mk("find_relative_paths", b, ("enum-rel", "n=%d" % n), q=q))
            for md in range(mdmax + 1):
                for mn in range(4):
                    for mx in range(4):
                        cases.append(mk("findall", b, ("enum-count", "n=%d" % n), cond="all", md=md, min=mn, max=mx))
    # ---- all small shapes, deterministic labelling, every start, every function (random arguments)
    smax = 5 if quick else 6
    for shape in core.all_shapes_upto(smax):
        spec = det_label(shape)
        n = core.shape_size(shape)
        base = {"spec": spec, "binary": False, "sep": "/"}
        cases += _cases_for_tree(rng, base, range(n), 1 if quick else 2, ("enum-shapes", "n=%d" % n))
    # ---- random trees, hostile names, attributes, separators
    for _ in range(70 if quick else 700):
        size = rng.randint(3, 30)
        shape = core.random_shape(rng, size)
        sep = rng.choice(SEPS)
        tags = ["random", "sep=" + sep]
        if rng.random() < 0.85:
            alphabet = [x for x in ALPHA if not any(ch in x for ch in sep)]
        else:
            alphabet = ALPHA + ([sep + "a", "a" + sep] if rng.random() < 0.3 else [])
        spec = rand_spec(rng, shape, alphabet)
        if any(any(ch in nm for ch in sep) for nm in [s[0] for _a, s in core.spec_nodes(spec)]):
            tags.append("sep-in-name")
        if rng.random() < 0.12:
            # duplicated sibling names (reachable by renaming): find_child_by_name is ambiguous there
            def dup(t):
                kids = [dup(c) for c in t[2]]
                if len(kids) >= 2 and rng.random() < 0.5:
                    i, j = rng.sample(range(len(kids)), 2)
                    kids[j] = (kids[i][0], kids[j][1], kids[j][2])
                return (t[0], t[1], kids)
            spec = dup(spec)
            tags.append("sibling-dup")
        base = {"spec": spec, "binary": False, "sep": sep}
        starts = [0] + [rng.randrange(size) for _ in range(2 if quick else 3)]
        cases += _cases_for_tree(rng, base, starts, 1, tags)
    # ---- histories: build -> warm-up searches -> edits -> compared searches (the model sees the final tree only)
    cases += _gen_histories(rng, quick)
    # ---- binary trees with holes
    bmax = 4 if quick else 5
    for nb in range(1, bmax + 1):
        for bshape in core.all_bshapes(nb):
            spec = rand_bspec(rng, bshape, DET + ["aa"])
            base = {"spec": spec, "binary": True, "sep": "/"}
            cases += _cases_for_tree(rng, base, range(nb), 1, ("enum-binary", "nb=%d" % nb))
    for _ in range(25 if quick else 250):
        nb = rng.randint(4, 20)
        spec = rand_bspec(rng, core.random_bshape(rng, nb))
        base = {"spec": spec, "binary": True, "sep": rng.choice(["/", "/", "|", "::"])}
        cases += _cases_for_tree(rng, base, [0, rng.randrange(nb), rng.randrange(nb)], 1, ("random-binary",))
    return cases


def nontrivial(case):
    return size_of(case.data) >= 3


# ---------------------------------------------------------------- implementation side
def _warmup(objs, light=None):
    """a round of searches and path reads on (some of) the nodes, results discarded: whatever the
    real code remembers from it must not influence later answers"""
    import bigtree
    todo = objs if light is None else [objs[i % len(objs)] for i in light]
    for n in todo:
        for f in (lambda: bigtree.find_full_path(n, n.path_name),
                  lambda: [bigtree.find_child_by_name(n, c.node_name) for c in n.children if c is not None],
                  lambda: bigtree.find_relative_paths(n, "*"),
                  lambda: bigtree.find_relative_paths(n, ".." + n.sep + "*"),
                  lambda: bigtree.find_name(n.root, n.node_name),
                  lambda: bigtree.find_paths(n.root, n.node_name),
                  lambda: (n.depth, n.path_name, n.max_depth, n.sep)):
            try:
                f()
            except Exception:  # noqa: BLE001 - ambiguity etc.; irrelevant here
                pass


def _build_hist(d):
    """build the INITIAL tree (node by node / list_to_tree / add_path_to_tree), warm up, apply the
    edits (with warm-ups in between), return the objects in the pre-order of the FINAL tree"""
    import bigtree
    from bigtree import Node, BinaryNode
    h = d["hist"]
    init = h["init"]
    if d["binary"]:
        objs = []
        def go(s):
            if s is None:
                return None
            n = BinaryNode(s[0])
            objs.append(n)
            ln = go(s[2])
            rn = go(s[3])
            n.children = [ln, rn]
            return n
        root = go(init)
        for n, s in zip(objs, H.bnodes(init)):
            n.set_attrs(dict(s[1]))
        final_order = list(range(len(objs)))
    else:
        mode = h["build"]
        if mode == "list":
            root = bigtree.list_to_tree(H.spec_paths(init))
            objs = H.collect_in_spec_order(root, init)
        elif mode == "addpath":
            root = Node(init[0])
            for p in H.spec_paths(init)[1:]:
                bigtree.add_path_to_tree(root, p)
            objs = H.collect_in_spec_order(root, init)
        else:
            objs = []
            HNode, _HBase = H.hooked_classes()     # hooks are no-ops except during the "hook…" edits
            def go(s, parent):
                n = HNode(s[0], parent=parent)
                objs.append(n)
                for c in s[2]:
                    go(c, n)
                return n
            root = go(init, None)
        for n, (_a, s) in zip(objs, core.spec_nodes(init)):
            n.set_attrs(dict(s[1]))
        _fspec, final_order = H.final(init, h["edits"])
    if h.get("sep0", "/") != "/":
        root.sep = h["sep0"]
    _warmup(objs)
    for e, w in zip(h["edits"], h["warm"]):
        H.apply_real(objs, e)
        if w:
            _warmup(objs, light=w)
    if root.sep != d["sep"]:      # (an unconditional assignment would give a caching implementation a chance to flush)
        root.sep = d["sep"]
    return root, [objs[i] for i in final_order]


def _build(d):
    """real objects; built under temporary unique names, then given the specified names (so that
    duplicated sibling names, reachable by renaming, can be set up)"""
    from bigtree import Node, BinaryNode
    if d.get("hist"):
        return _build_hist(d)
    nodes, meta = [], []
    if d["binary"]:
        def go(s):
            if s is None:
                return None
            n = BinaryNode("__t%d" % len(nodes))
            nodes.append(n)
            meta.append(s)
            ln = go(s[2])
            rn = go(s[3])
            n.children = [ln, rn]
            return n
        root = go(d["spec"])
    else:
        def go(s, parent):
            n = Node("__t%d" % len(nodes))
            nodes.append(n)
            meta.append(s)
            if parent is not None:
                n.parent = parent
            for c in s[2]:
                go(c, n)
            return n
        root = go(d["spec"], None)
    for n, s in zip(nodes, meta):
        n.name = s[0]
        n.set_attrs(dict(s[1]))
    root.sep = d["sep"]
    return root, nodes


def _cond(d, ids):
    c = d.get("cond")
    if c == "all":
        return lambda n: True
    if c == "none":
        return lambda n: False
    s = set(c)
    return lambda n: ids(n) in s


def _call(d, nodes, ids):
    import bigtree
    st = nodes[d["start"]]
    fn = d["fn"]
    md, mn, mx = d.get("md", 0), d.get("min", 0), d.get("max", 0)
    if fn == "findall":
        return bigtree.findall(st, _cond(d, ids), max_depth=md, min_count=mn, max_count=mx)
    if fn == "find":
        return bigtree.find(st, _cond(d, ids), max_depth=md)
    if fn == "find_name":
        return bigtree.find_name(st, d["name"], max_depth=md)
    if fn == "find_names":
        return bigtree.find_names(st, d["name"], max_depth=md)
    if fn == "find_path":
        return bigtree.find_path(st, d["q"])
    if fn == "find_paths":
        return bigtree.find_paths(st, d["q"])
    if fn == "find_full_path":
        return bigtree.find_full_path(st, d["q"])
    if fn == "find_attr":
        return bigtree.find_attr(st, d["k"], d["v"], max_depth=md)
    if fn == "find_attrs":
        return bigtree.find_attrs(st, d["k"], d["v"], max_depth=md)
    if fn == "find_children":
        return bigtree.find_children(st, _cond(d, ids), min_count=mn, max_count=mx)
    if fn == "find_child":
        return bigtree.find_child(st, _cond(d, ids))
    if fn == "find_child_by_name":
        return bigtree.find_child_by_name(st, d["name"])
    if fn == "find_relative_path":
        return bigtree.find_relative_path(st, d["q"])
    if fn == "find_relative_paths":
        return bigtree.find_relative_paths(st, d["q"], min_count=mn, max_count=mx)
    raise KeyError(fn)


def _run(d):
    """-> (nodes, ids, ('ok', value) | ('SearchError',) | ('rej', exc))"""
    from bigtree.utils.exceptions import SearchError
    _root, nodes = _build(d)
    ids = core.IdMap(nodes)
    try:
        return nodes, ids, ("ok", _call(d, nodes, ids))
    except SearchError:
        return nodes, ids, ("SearchError",)
    except Exception as e:  # noqa: BLE001 - any other refusal
        return nodes, ids, ("rej", e)


def impl(case):
    d = case.data
    _nodes, ids, res = _run(d)
    if res[0] != "ok":
        return res[0]
    v = res[1]
    if d["fn"] in LIST_FNS:
        if not isinstance(v, tuple):
            return "not-a-tuple"
        return "list " + ids.list(v)
    if v is None:
        return "none"
    return "one " + str(ids(v))


# ---------------------------------------------------------------- oracle (model-free)
def _kids(n):
    return [c for c in n.children if c is not None]


def _depth(n):
    k = 1
    while n.parent is not None:
        n = n.parent
        k += 1
    return k


def _pre(n):
    out = [n]
    for c in _kids(n):
        out += _pre(c)
    return out


def _names_up(n):
    out = []
    while n is not None:
        out.append(str(n.name))
        n = n.parent
    return out[::-1]


def _count_bad(k, mn, mx):
    return bool((mn and k < mn) or (mx and k > mx))


def _expect_rel(start, comps, wild):
    """file-system reading: the list of nodes the path denotes, or 'error'"""
    cur = [start]
    for c in comps:
        nxt = []
        for n in cur:
            if c == ".":
                nxt.append(n)
            elif c == "..":
                if n.parent is None:
                    return "error"
                nxt.append(n.parent)
            elif c == "*":
                nxt.extend(_kids(n))
            else:
                hit = [k for k in _kids(n) if str(k.name) == c]
                if len(hit) > 1:
                    return "error"
                if not hit:
                    if not wild:
                        return "error"
                else:
                    nxt.append(hit[0])
        cur = nxt
    return cur


def worker_impl(d):
    """executed in a worker interpreter (props/_twoproc.py): the outcome line of one case"""
    return impl(Case("", d, ()))


def oracle(case):
    msgs = _oracle(case)
    d = case.data
    if not msgs and not d.get("hist") and zlib.crc32(case.line.encode()) % 7 == 0:
        here = impl(case)
        if here == "SearchError":
            # the count contract and the "several match" refusal are not among the optional type/loop checks: the same
            # query in an interpreter started with BIGTREE_CONF_ASSERTIONS="" must be refused as well
            from props import _twoproc
            off = _twoproc.call("off", "props.C09:worker_impl", d)
            if off != here:
                msgs.append(f"with BIGTREE_CONF_ASSERTIONS switched off the query is no longer refused with SearchError: {off[:120]}")
    return msgs


def _oracle(case):
    d = case.data
    nodes, ids, res = _run(d)
    fn = d["fn"]
    st = nodes[d["start"]]
    sep = d["sep"]
    md, mn, mx = d.get("md", 0), d.get("min", 0), d.get("max", 0)
    msgs = []

    def show(r):
        if r[0] != "ok":
            return r[0] + (":" + type(r[1]).__name__ if len(r) > 1 else "")
        v = r[1]
        if isinstance(v, tuple):
            return "(" + ids.list(v) + ")"
        return str(ids(v))

    def expect_list(want, mn, mx):
        """tuple result with count contract"""
        if _count_bad(len(want), mn, mx):
            if res[0] != "SearchError":
                msgs.append(f"{fn}: {len(want)} matches violate min={mn}/max={mx} but got {show(res)}")
        elif res[0] != "ok" or not isinstance(res[1], tuple) or [id(x) for x in res[1]] != [id(x) for x in want]:
            msgs.append(f"{fn}: got {show(res)}, expected exactly ({ids.list(want)}) in pre-order")

    def expect_one(want):
        if len(want) == 0:
            if res != ("ok", None):
                msgs.append(f"{fn}: no match but got {show(res)}")
        elif len(want) == 1:
            if res[0] != "ok" or res[1] is not want[0]:
                msgs.append(f"{fn}: single match {ids(want[0])} but got {show(res)}")
        elif res[0] != "SearchError":
            msgs.append(f"{fn}: {len(want)} matches ({ids.list(want)}) but got {show(res)}")

    scope = [n for n in _pre(st) if not md or _depth(n) <= md]
    if fn in ("findall", "find"):
        c = _cond(d, ids)
        want = [n for n in scope if c(n)]
        expect_list(want, mn, mx) if fn == "findall" else expect_one(want)
    elif fn in ("find_name", "find_names"):
        want = [n for n in scope if str(n.name) == d["name"]]
        expect_list(want, 0, 0) if fn == "find_names" else expect_one(want)
    elif fn in ("find_attr", "find_attrs"):
        want = [n for n in scope if bool(vars(n).get(d["k"], None) == d["v"])]
        expect_list(want, 0, 0) if fn == "find_attrs" else expect_one(want)
    elif fn in ("find_path", "find_paths"):
        q = d["q"]
        while q and q[-1] in sep:
            q = q[:-1]
        want = [n for n in _pre(st) if (sep + sep.join(_names_up(n))).endswith(q)]
        expect_list(want, 0, 0) if fn == "find_paths" else expect_one(want)
    elif fn in ("find_children", "find_child"):
        c = _cond(d, ids)
        want = [n for n in _kids(st) if c(n)]
        expect_list(want, mn, mx) if fn == "find_children" else expect_one(want)
    elif fn == "find_child_by_name":
        expect_one([n for n in _kids(st) if str(n.name) == d["name"]])
    elif fn == "find_full_path":
        # claimed for a separator that occurs in no name, non-empty names and unique sibling names
        names = [str(n.name) for n in nodes]
        if any(any(ch in nm for ch in sep) for nm in names) or any(not nm for nm in names):
            return msgs
        if any(len({str(k.name) for k in _kids(n)}) != len(_kids(n)) for n in nodes):
            return msgs
        top = st
        while top.parent is not None:
            top = top.parent
        q = d["q"].strip(sep) if len(sep) == 1 else None
        if q is None:
            q = d["q"]
            while q and q[0] in sep:
                q = q[1:]
            while q and q[-1] in sep:
                q = q[:-1]
        want = [n for n in _pre(top) if sep.join(_names_up(n)) == q]
        if len(want) == 1:
            if res[0] != "ok" or res[1] is not want[0]:
                msgs.append(f"find_full_path: the path exists (node {ids(want[0])}) but got {show(res)}")
        elif len(want) == 0:
            if res[0] == "ok" and res[1] is not None:
                msgs.append(f"find_full_path: no node has this full path but got {show(res)}")
        else:
            if res[0] == "ok" and (res[1] is None or all(res[1] is not w for w in want)):
                msgs.append(f"find_full_path: ambiguous path, got {show(res)}")
    elif fn in ("find_relative_path", "find_relative_paths"):
        q = d["q"]
        if q.startswith(sep):
            return msgs
        core_q = q
        while core_q and core_q[-1] in sep:
            core_q = core_q[:-1]
        while core_q and core_q[0] in sep:
            core_q = core_q[1:]
        comps = core_q.split(sep)
        want = _expect_rel(st, comps, "*" in core_q)
        if want == "error":
            if res[0] != "SearchError":
                msgs.append(f"{fn}: the path leaves the tree / names a missing node, expected SearchError, got {show(res)}")
        elif fn == "find_relative_paths":
            expect_list(want, mn, mx)
        else:
            expect_one(want)
    if res[0] == "ok" and isinstance(res[1], tuple):
        if any(x is None for x in res[1]):
            msgs.append(f"{fn}: None in the result")
        elif len({id(x) for x in res[1]}) != len(res[1]) and fn not in ("find_relative_paths",):
            msgs.append(f"{fn}: a node is returned twice: ({ids.list(res[1])})")
    return msgs


# ---------------------------------------------------------------- shrinking
def shrink(case):
    d = case.data
    for key, val in (("md", 0), ("min", 0), ("max", 0)):
        if d.get(key):
            nd = dict(d); nd[key] = val
            yield Case(_line(nd), nd, case.tags)
    if d["binary"] or d.get("hist"):
        return
    spec = d["spec"]
    nodes = core.spec_nodes(spec)
    for idx in range(len(nodes) - 1, 0, -1):
        addr, s = nodes[idx]
        if s[2] or idx == d["start"]:
            continue
        def remove(t, a):
            if len(a) == 1:
                return (t[0], t[1], t[2][:a[0]] + t[2][a[0] + 1:])
            return (t[0], t[1], [remove(c, a[1:]) if k == a[0] else c for k, c in enumerate(t[2])])
        nd = dict(d, spec=remove(spec, addr), start=d["start"] - 1 if d["start"] > idx else d["start"])
        if isinstance(d.get("cond"), list):
            nd["cond"] = [x - 1 if x > idx else x for x in d["cond"] if x != idx]
        yield Case(_line(nd), nd, case.tags)
    # drop attributes
    if any(s[1] for _a, s in nodes):
        def strip(t):
            return (t[0], {}, [strip(c) for c in t[2]])
        if d["fn"] not in ("find_attr", "find_attrs"):
            nd = dict(d, spec=strip(spec))
            yield Case(_line(nd), nd, case.tags)


NOT_READY = False
TECHNIQUE = ("Lean 4 proof (structural induction: each search function as written = filter of the depth-gated pre-order / component-wise "
             "descent / denotation of the relative path) + correspondence check of all 14 search functions against the real code")
LEVEL_TEXT = ("Proof. Lean 4 theorems (C09.*) show, for every tree, start node, condition, query and count bounds, that the models written "
              "the way search.py is written equal their specifications: findall = the nodes of the searched subtree within max_depth that "
              "satisfy the condition, in pre-order, each once (members characterised exactly), SearchError iff min_count / max_count is "
              "violated and no other failure; find = the node / None / SearchError by the number of matches; find_name(s), find_attr(s) "
              "(Python == on None/int/str/bool, missing attribute = None) and find_path(s) (path_name = sep + sep.join(names from the root) "
              "ends with the query stripped of trailing separator characters: a string suffix) are the corresponding instances; "
              "find_children / find_child / find_child_by_name look at exactly the existing children (on a BinaryNode the two slots, empty "
              "ones skipped); find_full_path (strip, split, check the root name, descend component-wise) returns node v iff v exists and its "
              "names joined by the separator are the stripped query, and find_full_path(path_name(v)) = v (one-character separator in no "
              "name, non-empty sibling-unique names; find_full_path_iff_multi / find_full_path_path_name_multi: the same for EVERY "
              "non-empty separator such as '::' or '->' whose characters occur in no name, with any run of separator characters "
              "around the path - Python strips a character SET; join_split_multi: join(split x) = x for every string); the accumulator-style resolve of find_relative_paths equals the denotational "
              "resolveSpec ('.' stay, '..' parent or SearchError at the root, '*' every child in order, a name that child, a missing name "
              "SearchError unless the query contains a wildcard) and the public function adds the count contract; the pre-order used is "
              "C04's model of preorder_iter. The model is tied to /repo on every run by differential testing of all 14 functions from "
              "every start node: exhaustive relative paths (<=3/4 components over . .. * a b) and count contracts on all trees with <=4/5 "
              "nodes, all shapes <=5/6 nodes, random trees with repeated and suffix-related names (a, b, ab, ba, aa, 'a b', 'a.b'), "
              "attributes, separators / . \\ | - ::, duplicated sibling names, BinaryNode trees with holes (regression D8); a model-free "
              "oracle (own traversal of .children, own path strings, breadth-wise file-system reading of relative paths) checks every case. History-built trees (build through constructors, warm-up searches, renames / re-parentings / reorderings, then the compared searches against the model of the final tree) make stale caches or indexes in the search path visible.")
LEVEL_NOTE = ("Trusted: Lean kernel, axioms <= {propext, Classical.choice, Quot.sound} (audited each run), the hand-written model's "
              "correspondence to search.py as established by the tie (not proved), CPython. Conditions are functions of node identity; "
              "strings are character lists with Python's strip / split / endswith re-implemented in the model (names containing separator "
              "characters are covered by the tie only; the path theorems assume a non-empty separator that shares no character with a "
              "name). The absolute-path branch of find_relative_paths is out of scope (DESIGN section 5) and never generated.")
RULE = RULE + ' Fifth session: a corpus tree of 70 levels with repeated leaf names below three siblings at the bottom; theorems find_full_path_iff_multi / find_full_path_path_name_multi / join_split_multi (separators of any length).'
