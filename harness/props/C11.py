"""C11 — a BinaryNode always has exactly a left and a right slot.

Also the BinaryNode half of C02 (a rejected / failing assignment changes nothing) and C20
(assertions switch): `gen_histories`, `impl_history`, `oracle_c02`, `line_of` are re-used by
props/C02.py and props/C20.py (the model side is `Drv.C11.handle`, which honours `asrt=` and faults).

A case is ONE WHOLE HISTORY on n fresh BinaryNode objects:

    data = {"n": 3, "asrt": 1, "ops": [["C", 0, [1, 2], "none"], ["P", 2, None, "post"], ["D", 0], ["S", 0, "s"]]}
    line = "cls=binary n=3 asrt=1 ops= C:0:1,2:none P:2:-:post D:0 S:0:s"

ops (JSON lists):  ["P", v, arg, fault]   v.parent = arg
                   ["C", v, lst, fault]   v.children = lst   (lst: None = not a list, [] , [arg, …])
                   ["T", v, lst, fault]   v.children = tuple(lst)   (the setter copies it into a list; D7)
                   ["L"|"R", v, arg, fault]  v.left / v.right = arg
                   ["D", v]               del v.children
                   ["S", v, "k"|"s"]      v.sort(key=…) keeping / swapping two children
arg: None | id < n (that node) | id >= n (an object that is not a BinaryNode); fault: none|pre|post
(which user hook `_BinaryNode__{pre,post}_assign_{parent,children}` raises).
"""
from __future__ import annotations
import itertools, random, zlib
import core
from runner import Case

THEOREMS = [
    "C11.bwf_init", "C11.bwf_step", "C11.bwf_run", "C11.bwf_reachable", "C11.two_slots_always",
    "C11.slot_holds_child", "C11.one_slot_of_parent",
    "C11.slot_move", "C11.slot_move_left", "C11.slot_move_parent",
    "C11.parent_first_empty", "C11.parent_left_before_right", "C11.parent_full_rej",
    "C11.delChildren_empties_both", "C11.sort_effect",
    "C11.reject_loops", "C11.reject_loops_children", "C11.rejected_unchanged",
    "C11.prefix_deleter_breaks_two_slots",
    # shared lemmas the above rest on (also re-exported for C02 / C20, BinaryNode part)
    "BinStore.setParent_rej_id", "BinStore.setChildren_rej_id", "BinStore.step_rej_id",
    "BinStore.setChildren_rej_id_any", "BinStore.step_rej_id_any", "BinStore.assertions_off_same",
    "BinStore.anc_complete", "BinStore.acyc_reparent",
    # bridge two-slot store -> binary trees (BTree of C04 / C12): lean/BigtreeProofs/Properties/BinBridge.lean
    "BinBridge.btreeOf_fuel", "BinBridge.btreeOf_unfold", "BinBridge.btreeOf_ids", "BinBridge.btree_partition", "BinBridge.btreeOf_slots",
    "BinBridge.inorder_transfer", "BinBridge.is_leaf_transfer",
]
PROOF_IMPORTS = ["BigtreeProofs.Properties.C11", "BigtreeProofs.Properties.BinBridge"]
HANDLER = "C11"
FAULTS = ("none", "pre", "post")


# ------------------------------------------------------------------ protocol
def _arg(a):
    return "-" if a is None else str(a)


def plain_op(op):
    """["B", v, "kids", [a, b], form] / ["B", v, "parent", p]: node v is CONSTRUCTED with these arguments
    (BinaryNode(name, children=[a, b]) | (name, left=a, right=b) | both; BinaryNode(name, parent=p)) instead of being
    created bare and assigned to afterwards - for the model the assignment on the so far untouched node v"""
    if op[0] == "B":
        return ["C", op[1], list(op[3]), "none"] if op[2] == "kids" else ["P", op[1], op[3], "none"]
    return op


def op_token(op) -> str:
    op = plain_op(op)
    k = op[0]
    if k == "P" or k == "L" or k == "R":
        return f"{k}:{op[1]}:{_arg(op[2])}:{op[3]}"
    if k == "C" or k == "T":
        lst = op[2]
        if k == "T" and lst is None:
            raise ValueError(op)
        enc = "X" if lst is None else ("e" if len(lst) == 0 else ",".join(_arg(a) for a in lst))
        return f"{k}:{op[1]}:{enc}:{op[3]}"
    if k == "D":
        return f"D:{op[1]}"
    if k == "S":
        return f"S:{op[1]}:{op[2]}"
    raise ValueError(op)


def line_of(data, assertions=None) -> str:
    a = data.get("asrt", 1) if assertions is None else (1 if assertions else 0)
    io = f" inorder={data['inorder']}" if data.get("inorder") is not None else ""
    return f"cls=binary n={data['n']} asrt={a}{io} ops= " + " ".join(op_token(o) for o in data["ops"])


def mk_case(data, tags=()):
    return Case(line_of(data), data, tags)


def rehydrate(case):
    return Case(case.line, case.data)


def op_args(op):
    op = plain_op(op)
    k = op[0]
    if k in ("P", "L", "R"):
        return [op[2]]
    if k == "C" or k == "T":
        return list(op[2] or [])
    return []


# ------------------------------------------------------------------ the real code
class HookFault(Exception):
    pass


class Hang(BaseException):
    """a call on the real objects did not return (e.g. the loop check walking a parent cycle);
    BaseException so that bigtree's own `except Exception` roll-back code cannot swallow it"""


class _Watchdog:
    """per-history alarm: a history that does not finish within `secs` raises Hang inside the call"""

    def __init__(self, secs=5.0):
        self.secs = secs

    def __enter__(self):
        import signal, threading
        self.active = threading.current_thread() is threading.main_thread() and hasattr(signal, "setitimer")
        if self.active:
            def _raise(signum, frame):
                raise Hang()
            self.old = signal.signal(signal.SIGPROF, _raise)
            signal.setitimer(signal.ITIMER_PROF, self.secs)
        return self

    def __exit__(self, *a):
        if self.active:
            import signal
            signal.setitimer(signal.ITIMER_PROF, 0)
            signal.signal(signal.SIGPROF, self.old)
        return False


_ARM = {"kind": None, "point": None}
_CLS = {}


def _peek(node, others):
    """a hook may READ the tree before it refuses (slots, depth, root ...): nothing remembered from these reads may
    survive the roll-back"""
    try:
        others = [o for o in (others or []) if hasattr(o, "children")]
    except TypeError:
        others = []
    for x in [node] + others:
        for f in (lambda: x.children, lambda: (x.left, x.right), lambda: x.parent, lambda: x.depth, lambda: x.root,
                  lambda: x.max_depth, lambda: x.is_leaf, lambda: list(x.descendants)):
            try:
                f()
            except Exception:  # noqa: BLE001
                pass


def faulty_class():
    """user subclass of BinaryNode whose four documented hooks raise on demand"""
    if "c" not in _CLS:
        from bigtree import BinaryNode

        class FaultyBinaryNode(BinaryNode):
            def _BinaryNode__pre_assign_parent(self, new_parent):
                if _ARM["kind"] == "parent" and _ARM["point"] == "pre":
                    _peek(self, [new_parent]); raise core.hook_exc(_ARM.get("op"), "pre_assign_parent")

            def _BinaryNode__post_assign_parent(self, new_parent):
                if _ARM["kind"] == "parent" and _ARM["point"] == "post":
                    _peek(self, [new_parent]); raise core.hook_exc(_ARM.get("op"), "post_assign_parent")

            def _BinaryNode__pre_assign_children(self, new_children):
                if _ARM["kind"] == "children" and _ARM["point"] == "pre":
                    _peek(self, new_children); raise core.hook_exc(_ARM.get("op"), "pre_assign_children")

            def _BinaryNode__post_assign_children(self, new_children):
                if _ARM["kind"] == "children" and _ARM["point"] == "post":
                    _peek(self, new_children); raise core.hook_exc(_ARM.get("op"), "post_assign_children")

        _CLS["c"] = FaultyBinaryNode
    return _CLS["c"]


class World:
    """n real nodes + the objects standing for ids >= n"""

    def __init__(self, n, cls=None, inter=None):
        import bigtree
        cls = cls or faulty_class()
        _ARM["kind"] = _ARM["point"] = None
        self.n = n
        # interludes: {index of an op (as str): variant} - just before that op a library call on OTHER, fresh objects
        # fails (list_to_binarytree on a list it refuses half-way).  The model never sees it: it must not matter.
        self.inter = dict(inter or {})
        self.count = 0
        self.nodes = [cls(str(i)) for i in range(n)]
        self.others = {}
        self._plain = bigtree.Node
        self.ids = {id(x): i for i, x in enumerate(self.nodes)}

    def obj(self, a):
        if a is None:
            return None
        if a < self.n:
            return self.nodes[a]
        if a not in self.others:  # not a BinaryNode: a bare object, a plain bigtree Node, an int, …
            k = (a - self.n) % 3
            self.others[a] = object() if k == 0 else (self._plain("x%d" % a) if k == 1 else a)
        return self.others[a]

    def name(self, x):
        if x is None:
            return "-"
        return str(self.ids.get(id(x), "?"))

    def interlude(self, variant):
        import bigtree
        try:
            if variant == 0:
                bigtree.list_to_binarytree([1, 2, 3, None, 5])
            elif variant == 1:
                bigtree.list_to_binarytree([])
            else:
                cnt = [0]

                class Raising(bigtree.BinaryNode):
                    def __init__(self, *a, **kw):
                        cnt[0] += 1
                        if cnt[0] == 3:
                            raise HookFault("constructor of a user node type fails")
                        super().__init__(*a, **kw)
                bigtree.list_to_binarytree([1, 2, 3, 4], node_type=Raising)
        except Exception:
            pass

    def apply(self, op):
        """perform one op on the real objects; returns True (accepted) / False (raised)"""
        var = self.inter.get(str(self.count))
        self.count += 1
        if var is not None:
            self.interlude(var)
        if op[0] == "B":
            return self.construct(op)
        k, v = op[0], self.nodes[op[1]]
        _ARM["op"] = op      # the class of the exception a raising hook throws is a function of the op
        try:
            if k == "P":
                _ARM["kind"], _ARM["point"] = "parent", op[3]
                v.parent = self.obj(op[2])
            elif k == "C":
                _ARM["kind"], _ARM["point"] = "children", op[3]
                held = None if op[2] is None else [self.obj(a) for a in op[2]]
                try:
                    v.children = held
                finally:
                    # the caller goes on using ITS list object: whatever it does to it must not reach the slots
                    if held is not None:
                        held.append(None)
                        held.clear()
            elif k == "T":
                _ARM["kind"], _ARM["point"] = "children", op[3]
                v.children = tuple(self.obj(a) for a in op[2])
            elif k == "L":
                _ARM["kind"], _ARM["point"] = "children", op[3]
                v.left = self.obj(op[2])
            elif k == "R":
                _ARM["kind"], _ARM["point"] = "children", op[3]
                v.right = self.obj(op[2])
            elif k == "D":
                del v.children
            elif k == "S":
                kids = list(v.children)
                rank = {id(c): i for i, c in enumerate(kids)}
                if op[2] == "s":
                    v.sort(key=lambda nd: -rank[id(nd)])
                else:
                    v.sort(key=lambda nd: 0)
            else:
                raise ValueError(op)
            return True
        except Exception:
            return False
        finally:
            _ARM["kind"] = _ARM["point"] = None

    def construct(self, op):
        """node op[1] has not been touched yet: replace the bare object by one built with constructor arguments"""
        i = op[1]
        cls = type(self.nodes[i])
        _ARM["kind"] = _ARM["point"] = None
        try:
            if op[2] == "parent":
                new = cls(str(i), parent=self.obj(op[3]))
            else:
                a, b = (self.obj(x) for x in op[3])
                form = op[4]
                if form == 0:
                    new = cls(str(i), children=[a, b])
                elif form == 1:
                    new = cls(str(i), left=a, right=b)
                else:
                    new = cls(str(i), left=a, right=b, children=[a, b])
        except Exception:
            return False          # the bare, unlinked object stays (a refused constructor call must not have linked anything)
        del self.ids[id(self.nodes[i])]
        self.nodes[i] = new
        self.ids[id(new)] = i
        return True

    # observation: only public attributes of the real objects
    def raw(self):
        """[(parent, tuple(children))] as objects"""
        return [(nd.parent, tuple(nd.children)) for nd in self.nodes]

    def snapshot(self):
        """JSON-able full snapshot: per node (parent id, [child ids])"""
        return [(self.name(nd.parent), [self.name(c) for c in nd.children]) for nd in self.nodes]

    def dump(self) -> str:
        out = []
        for i, nd in enumerate(self.nodes):
            try:
                l = self.name(nd.left)
            except IndexError:
                l = "!"
            try:
                r = self.name(nd.right)
            except IndexError:
                r = "!"
            out.append(f"{i}:{self.name(nd.parent)}:{len(nd.children)}:{l}:{r}")
        return " ".join(out)


class _Assertions:
    """ASSERTIONS is read from the module globals of the setters; switch it for one history"""

    def __init__(self, on):
        self.on = bool(on)

    def __enter__(self):
        import bigtree.node.basenode as bn, bigtree.node.binarynode as bi
        self.mods = [bn, bi]
        self.old = [m.ASSERTIONS for m in self.mods]
        # on = leave the process setting alone (True unless BIGTREE_CONF_ASSERTIONS="" was exported)
        if not self.on:
            for m in self.mods:
                m.ASSERTIONS = False
        return self

    def __exit__(self, *a):
        for m, o in zip(self.mods, self.old):
            m.ASSERTIONS = o


def impl_history(data, assertions=None) -> str:
    """run the REAL code on the history, return the canonical output line (same format as the driver).
    assertions: None = data["asrt"]; False = checks switched off in this process for the call;
    True = the process setting (on unless BIGTREE_CONF_ASSERTIONS="" was exported)."""
    on = bool(data.get("asrt", 1)) if assertions is None else bool(assertions)
    parts = []
    try:
        with _Assertions(on), _Watchdog():
            w = World(data["n"], inter=data.get("inter"))
            for op in data["ops"]:
                ok = w.apply(op)
                parts.append(("ok " if ok else "rej ") + w.dump())
            if data.get("inorder") is not None:
                # tie of the bridge BinStore.btreeOf (BinBridge.*): what the read-only functions see on the final state
                from bigtree import inorder_iter
                ids = [w.name(x) for x in inorder_iter(w.nodes[data["inorder"]])]
                parts.append("inorder " + (",".join(ids) if ids else "-") + " leaf "
                             + "".join("1" if nd.is_leaf else "0" for nd in w.nodes))
    except Hang:
        parts.append("hang")          # never produced by the model: reported as a disagreement
    return " ; ".join(parts) if parts else "-"


def impl(case):
    out = impl_history(case.data)
    # measured input distribution: outcome of the last call (the transition under test in the exhaustive part)
    # and the share of refused calls in the history
    parts = out.split(" ; ")
    heads = [p.split(" ", 1)[0] for p in parts if p != "-" and not p.startswith("inorder ")]
    if heads:
        rej = sum(1 for h in heads if h == "rej")
        case.tags = tuple(case.tags) + ("last=" + heads[-1], "rej-share=%d%%" % (10 * round(10 * rej / len(heads))),)
    return out


# ------------------------------------------------------------------ oracles (model-free)
def oracle_c02(data, assertions=None):
    """C02 on the real objects: whenever the call raised, the FULL snapshot (every parent, every
    child list in order) equals the snapshot taken just before the call."""
    on = bool(data.get("asrt", 1)) if assertions is None else bool(assertions)
    msgs = []
    k, op = -1, ["?"]
    try:
        with _Assertions(on), _Watchdog():
            w = World(data["n"], inter=data.get("inter"))
            for k, op in enumerate(data["ops"]):
                before_raw = w.raw()
                before = w.snapshot()
                ok = w.apply(op)
                if not ok:
                    after_raw = w.raw()
                    same = all(a[0] is b[0] and len(a[1]) == len(b[1]) and all(x is y for x, y in zip(a[1], b[1]))
                               for a, b in zip(before_raw, after_raw))
                    if not same:
                        msgs.append(f"op#{k} {op_token(op)} raised but changed the store: {before} -> {w.snapshot()}")
                        break
    except Hang:
        msgs.append(f"op#{k} {op_token(op) if k >= 0 else ''} does not terminate")
    return msgs


def _wf_messages(w, tag):
    """the state clauses of C11 read off the real objects"""
    from bigtree import BinaryNode
    msgs = []
    occ = {}  # id(child) -> [(parent idx, slot)]
    for i, nd in enumerate(w.nodes):
        ch = nd.children
        if len(ch) != 2:
            msgs.append(f"{tag}: node {i} exposes {len(ch)} child slots")
        for sl, c in enumerate(ch):
            if c is None:
                continue
            if not isinstance(c, BinaryNode):
                msgs.append(f"{tag}: node {i} slot {sl} holds a {type(c).__name__}")
                continue
            occ.setdefault(id(c), []).append((i, sl))
            if c.parent is not nd:
                msgs.append(f"{tag}: node {w.name(c)} sits in slot {sl} of {i} but its parent is {w.name(c.parent)}")
        if len([c for c in ch if c is not None]) > 2:
            msgs.append(f"{tag}: node {i} has more than two children")
        try:
            if nd.left is not (ch[0] if len(ch) > 0 else None) or len(ch) < 1:
                msgs.append(f"{tag}: node {i}.left is not the first slot")
        except IndexError:
            msgs.append(f"{tag}: node {i}.left raises IndexError")
        try:
            if nd.right is not (ch[1] if len(ch) > 1 else None) or len(ch) < 2:
                msgs.append(f"{tag}: node {i}.right is not the second slot")
        except IndexError:
            msgs.append(f"{tag}: node {i}.right raises IndexError")
    for i, nd in enumerate(w.nodes):
        p = nd.parent
        if p is not None:
            if not isinstance(p, BinaryNode):
                msgs.append(f"{tag}: parent of {i} is a {type(p).__name__}")
                continue
            places = occ.get(id(nd), [])
            if len(places) != 1 or w.nodes[places[0][0]] is not p:
                msgs.append(f"{tag}: node {i} (parent {w.name(p)}) occupies slots {places}, expected exactly one slot of its parent")
        elif occ.get(id(nd)):
            msgs.append(f"{tag}: root {i} sits in slots {occ[id(nd)]}")
    # the two-element child list (anchor `_BinaryNode__children`) belongs to one node only: no two
    # nodes may share one list object (checked only while that private field exists)
    lists = {}
    for i, nd in enumerate(w.nodes):
        lst = getattr(nd, "_BinaryNode__children", None)
        if isinstance(lst, list):
            if id(lst) in lists:
                msgs.append(f"{tag}: nodes {lists[id(lst)]} and {i} share one slot list object")
            lists[id(lst)] = i
    # parent walk terminates
    for i, nd in enumerate(w.nodes):
        x, steps = nd, 0
        while x is not None and steps <= w.n + 1:
            x = getattr(x, "parent", None)
            steps += 1
        if steps > w.n + 1:
            msgs.append(f"{tag}: walking parents from {i} does not terminate")
    return msgs


def _expected_effect(w, op, before):
    """C11's effect clauses recomputed from the before-snapshot (ids as strings, '-' = empty).
    Returns (must_be_rejected, expected_snapshot_if_accepted or None when the clause does not
    determine it)."""
    op = plain_op(op)
    n = w.n
    par = [p for p, _ in before]
    ch = [list(c) for _, c in before]
    k, v = op[0], op[1]
    sv = str(v)

    def is_node(a):
        return a is not None and a < n

    if k == "P":
        a = op[2]
        if a is not None and not is_node(a):
            return (None, None)          # type errors are C01's business; state clauses still checked
        if par[v] != "-":
            q = int(par[v])
            ch[q] = ["-" if c == sv else c for c in ch[q]]     # the slot it came from is emptied
        if a is None:
            par[v] = "-"
            return (False if op[3] == "none" else None, list(zip(par, ch)))
        free = [i for i, c in enumerate(ch[a]) if c == "-"]
        if not free:
            return (True, None)          # both taken: refused
        ch[a][free[0]] = sv              # first empty slot, left before right
        par[v] = str(a)
        return (None, list(zip(par, ch)))
    if k in ("C", "T", "L", "R"):
        if k == "C" or k == "T":
            lst = op[2]
            if lst is None:
                return (None, None)
            lst = [None, None] if len(lst) == 0 else list(lst)
            if len(lst) != 2:
                return (True, None)      # length-2 validation
        elif k == "L":
            lst = [op[2], None if ch[v][1] == "-" else int(ch[v][1])]
        else:
            lst = [None if ch[v][0] == "-" else int(ch[v][0]), op[2]]
        if any(a is not None and not is_node(a) for a in lst):
            return (None, None)
        if lst[0] is not None and lst[0] == lst[1]:
            return (True, None)          # one node cannot fill both slots
        new = ["-" if a is None else str(a) for a in lst]
        for c in ch[v]:                  # previous children that are not re-listed become roots
            if c != "-":
                par[int(c)] = "-"
        for c in new:                    # the slot a child came from is emptied
            if c != "-":
                for q in range(n):
                    if q != v:
                        ch[q] = ["-" if x == c else x for x in ch[q]]
                par[int(c)] = sv
        ch[v] = new
        return (None, list(zip(par, ch)))
    if k == "D":
        for c in ch[v]:
            if c != "-":
                par[int(c)] = "-"
        ch[v] = ["-", "-"]
        return (False, list(zip(par, ch)))
    if k == "S":
        if all(c != "-" for c in ch[v]) and len(ch[v]) == 2 and op[2] == "s":
            ch[v] = ch[v][::-1]
        return (False, list(zip(par, ch)))
    return (None, None)


def _heap_probe():
    """BinaryNode trees as the library's own constructor builds them (list_to_binarytree), far beyond the lengths of
    the test fixtures: every node must expose exactly two slots, left/right must be those slots, every child must sit
    in exactly one slot of its parent, and a later slot assignment must behave as on hand-built nodes"""
    import bigtree
    msgs = []
    for n in list(range(1, 34)) + [63, 64, 65, 255, 256, 511, 512, 513, 600, 1023, 1024, 1100]:
        root = bigtree.list_to_binarytree(list(range(1, n + 1)))
        todo, seen = [root], 0
        while todo:
            x = todo.pop()
            seen += 1
            ch = x.children
            if len(ch) != 2:
                msgs.append(f"list_to_binarytree(1..{n}): node {x.node_name} exposes {len(ch)} child slots")
                break
            try:
                if x.left is not ch[0] or x.right is not ch[1]:
                    msgs.append(f"list_to_binarytree(1..{n}): left/right of node {x.node_name} are not its two slots")
                    break
            except Exception as e:  # noqa: BLE001
                msgs.append(f"list_to_binarytree(1..{n}): reading left/right of node {x.node_name} raised {type(e).__name__}")
                break
            for c in ch:
                if c is not None:
                    if c.parent is not x or sum(1 for y in x.children if y is c) != 1:
                        msgs.append(f"list_to_binarytree(1..{n}): child {c.node_name} does not sit in exactly one slot of its parent")
                    todo.append(c)
        if not msgs and seen != n:
            msgs.append(f"list_to_binarytree(1..{n}): {seen} nodes reachable through the slots")
        if msgs:
            break
    return msgs


def oracle_history(data):
    """first-principles reading of C11 after every op of the history, on the real objects"""
    if data.get("probe") == "heap":
        return _heap_probe()
    if not data.get("asrt", 1):
        return []  # C11 is claimed for the default configuration; asrt=0 histories belong to C20
    msgs = []
    try:
        with _Assertions(True), _Watchdog():
            msgs += _oracle_history_body(data)
    except Hang:
        msgs.append("a call does not terminate (walking parents loops?) in history " + line_of(data))
    return msgs


def _oracle_history_body(data):
    msgs = []
    w = World(data["n"], inter=data.get("inter"))
    msgs += _wf_messages(w, "init")
    for k, op in enumerate(data["ops"]):
        before = [(p, list(c)) for p, c in w.snapshot()]
        ok = w.apply(op)
        tag = f"op#{k} {op_token(op)} ({'ok' if ok else 'rej'})"
        msgs += _wf_messages(w, tag)
        after = [(p, list(c)) for p, c in w.snapshot()]
        must_rej, want = _expected_effect(w, op, before)
        if not ok:
            if after != before:
                msgs.append(f"{tag}: refused but the store changed {before} -> {after}")
            if must_rej is False:
                msgs.append(f"{tag}: refused although nothing forbids it")
        else:
            if must_rej is True:
                msgs.append(f"{tag}: accepted although it must be refused (before {before})")
            elif want is not None and [(p, list(c)) for p, c in want] != after:
                msgs.append(f"{tag}: effect differs: before {before} expected {want} got {after}")
        if msgs:
            break
    return msgs


def oracle(case):
    return oracle_history(case.data)


# ------------------------------------------------------------------ generators
def _arg_universe(n):
    return [None] + list(range(n)) + [n]          # None, every node, one non-node


def all_ops(n, faults=FAULTS, long_lists=True):
    """every op x every argument tuple (incl. invalid) on n nodes"""
    U = _arg_universe(n)
    ops = []
    for v in range(n):
        for f in faults:
            for a in U:
                ops.append(["P", v, a, f])
                ops.append(["L", v, a, f])
                ops.append(["R", v, a, f])
            ops.append(["C", v, None, f])
            ops.append(["C", v, [], f])
            for a in U:
                ops.append(["C", v, [a], f])
            for a in U:
                for b in U:
                    ops.append(["C", v, [a, b], f])
            if long_lists:
                ops.append(["C", v, [None, None, None], f])
                ops.append(["C", v, [(v + 1) % n, None, (v + 2) % n], f])
            # tuples on the right-hand side (D7): (), (a,), every pair, one triple
            ops.append(["T", v, [], f])
            ops.append(["T", v, [(v + 1) % n], f])
            for a in U:
                for b in U:
                    ops.append(["T", v, [a, b], f])
            if long_lists:
                ops.append(["T", v, [None, (v + 1) % n, None], f])
        ops.append(["D", v])
        ops.append(["S", v, "k"])
        ops.append(["S", v, "s"])
    return ops


def explore_ops(n):
    """fault-free ops with node/None arguments, enough to reach every state"""
    ops = []
    for v in range(n):
        for a in [None] + list(range(n)):
            ops.append(["P", v, a, "none"])
            for b in [None] + list(range(n)):
                ops.append(["C", v, [a, b], "none"])
        ops.append(["S", v, "s"])
    return ops


_REACH = {}


def reachable_states(n):
    """all stores reachable from n fresh nodes, found by running the REAL code breadth-first;
    returns {final dump: shortest accepted op prefix}"""
    if n in _REACH:
        return _REACH[n]
    with _Assertions(True):
        w = World(n)
        start = w.dump()
    seen = {start: []}
    frontier = [start]
    ops = explore_ops(n)
    while frontier:
        nxt = []
        for st in frontier:
            pre = seen[st]
            for op in ops:
                with _Assertions(True):
                    w = World(n)
                    for o in pre:
                        w.apply(o)
                    if not w.apply(op):
                        continue
                    d = w.dump()
                if d not in seen:
                    seen[d] = pre + [op]
                    nxt.append(d)
        frontier = nxt
    _REACH[n] = seen
    return seen


EXPECTED_STATE_COUNT = {1: 1, 2: 5, 3: 43, 4: 529}   # labelled binary forests (slot-labelled)


def gen_exhaustive(nmax, faults_for=lambda n: FAULTS):
    out = []
    for n in range(1, nmax + 1):
        states = reachable_states(n)
        ops = all_ops(n, faults_for(n))
        for _st, pre in states.items():
            for op in ops:
                out.append(({"cls": "binary", "n": n, "asrt": 1, "ops": pre + [op]}, ("exh", "n=%d" % n, "op=" + op[0],
                            "fault=" + (op[3] if len(op) == 4 else "-"))))
    return out


def random_history(rng, n, length, fault_rate, invalid_rate=0.2):
    ops = []
    nodes = list(range(n))

    def arg():
        r = rng.random()
        if r < invalid_rate * 0.5:
            return n + rng.randrange(3)            # not a BinaryNode
        if r < invalid_rate * 0.5 + 0.2:
            return None
        return rng.choice(nodes)

    for _ in range(length):
        v = rng.choice(nodes)
        f = rng.choice(["pre", "post"]) if rng.random() < fault_rate else "none"
        r = rng.random()
        if r < 0.30:
            ops.append(["P", v, arg(), f])
        elif r < 0.55:
            if rng.random() < invalid_rate * 0.4:
                lst = rng.choice([None, [], [arg()], [arg(), arg(), arg()], [v, arg()], [arg()] * 2])
            else:
                lst = [arg(), arg()]
            ops.append(["T" if (lst is not None and rng.random() < 0.3) else "C", v, lst, f])
        elif r < 0.70:
            ops.append(["L", v, arg(), f])
        elif r < 0.85:
            ops.append(["R", v, arg(), f])
        elif r < 0.92:
            ops.append(["D", v])
        else:
            ops.append(["S", v, rng.choice(["k", "s"])])
    return ops


INSTALL_KINDS = [None, ["C", [], "none"], ["T", [], "none"], ["C", [None, None], "none"], ["T", [None, None], "none"],
                 ["D"], ["S", "k"], ["C", [], "post"], ["T", [], "post"], ["C", [None, None], "post"], ["C", [], "pre"]]


def gen_alias_probes():
    """list-sharing probes: every pair of ways two nodes can have their (empty) slot list (re)installed
    — constructor, children := [] / () / [None, None] / (None, None), del, sort, failed assignments —
    followed by writes that go through the list in place (attach by parent, steal, delete)"""
    def inst(kind, v):
        if kind is None:
            return []
        if kind[0] in ("C", "T"):
            return [[kind[0], v, list(kind[1]), kind[2]]]
        if kind[0] == "D":
            return [["D", v]]
        return [["S", v, kind[1]]]
    probes = [
        [["P", 2, 0, "none"]],
        [["P", 2, 1, "none"]],
        [["P", 2, 0, "none"], ["P", 3, 1, "none"]],
        [["P", 2, 0, "none"], ["P", 3, 0, "none"], ["P", 2, 1, "none"]],
        [["P", 2, 0, "none"], ["D", 1]],
        [["P", 2, 0, "none"], ["L", 3, 2, "none"]],
        [["P", 2, 1, "post"], ["P", 2, 1, "none"], ["C", 0, [], "none"]],
        [["R", 0, 2, "none"], ["P", 3, 1, "none"], ["P", 3, None, "none"]],
    ]
    out = []
    for k0 in INSTALL_KINDS:
        for k1 in INSTALL_KINDS:
            for pr in probes:
                for order in (0, 1):
                    pre = inst(k0, 0) + inst(k1, 1) if order == 0 else inst(k1, 1) + inst(k0, 0)
                    out.append({"cls": "binary", "n": 4, "asrt": 1, "ops": pre + pr})
    return out


def clearing_history(rng, n, length, fault_rate):
    """histories dominated by `children := [] / ()`, `del children` and attaches through `.parent`"""
    ops = []
    for _ in range(length):
        v = rng.randrange(n)
        f = rng.choice(["pre", "post"]) if rng.random() < fault_rate else "none"
        r = rng.random()
        if r < 0.30:
            ops.append([rng.choice(["C", "T"]), v, rng.choice([[], [], [None, None]]), f])
        elif r < 0.38:
            ops.append(["D", v])
        elif r < 0.80:
            ops.append(["P", v, rng.choice([None] + list(range(n))), f])
        elif r < 0.90:
            ops.append([rng.choice(["L", "R"]), v, rng.choice([None] + list(range(n))), f])
        else:
            ops.append(["C", v, [rng.choice([None] + list(range(n))), rng.choice([None] + list(range(n)))], f])
    return ops


def gen_histories(rng, tier, fault_rate=0.25):
    """random histories on 4-8 nodes, 1-40 ops; returns a list of `data` dicts (asrt=1)"""
    count = 400 if tier == "quick" else 6000
    out = []
    for _ in range(count):
        n = rng.randint(4, 8)
        length = rng.randint(1, 40)
        if rng.random() < 0.2:
            ops = clearing_history(rng, n, length, fault_rate)
        else:
            ops = random_history(rng, n, length, fault_rate)
        d = {"cls": "binary", "n": n, "asrt": 1, "ops": ops}
        out.append(d)
    # (function of the history, no random stream) an op that is the FIRST to mention node v, and assigns children (two
    # members) or a parent to v without a hook fault, is sometimes spelt as a constructor call with those arguments
    for d in out:
        seen = set()
        for j, op in enumerate(d["ops"]):
            v = op[1]
            if v not in seen and len(op) == 4 and op[3] == "none" and (v * 31 + j * 7 + len(d["ops"])) % 3 == 0:
                if op[0] == "C" and op[2] is not None and len(op[2]) == 2 and v not in op[2]:
                    d["ops"][j] = ["B", v, "kids", list(op[2]), (v + j) % 3]
                elif op[0] == "P" and op[2] != v:
                    d["ops"][j] = ["B", v, "parent", op[2]]
            seen.add(v)
            seen.update(x for x in op_args(op) if x is not None)
    # a separate stream (own PRNG, so the histories above are what they were): some histories get interludes
    r2 = random.Random(rng.random())
    for d in out:
        if d["ops"] and r2.random() < 0.25:
            d["inter"] = {str(r2.randrange(len(d["ops"]))): r2.randrange(3) for _ in range(r2.choice([1, 1, 2]))}
    return out


def corpus():
    c = []
    # seeded mutant C11-m3 (shared module-level list for an empty children argument): two nodes cleared with an
    # empty sequence, then an attach through `.parent` writes the shared list in place
    c.append({"cls": "binary", "n": 4, "asrt": 1, "ops": [["C", 0, [], "none"], ["C", 1, [], "none"], ["P", 2, 0, "none"],
                                                          ["P", 3, 1, "none"]]})
    c.append({"cls": "binary", "n": 4, "asrt": 1, "ops": [["T", 0, [], "none"], ["C", 0, [1, None], "none"], ["T", 2, [], "none"],
                                                          ["C", 0, [], "none"], ["P", 3, 2, "none"], ["P", 1, 0, "none"]]})
    # D7 witness: a.children = (b, c); b.parent = None; d.left = b; del a.children  (tuple stored as-is before the fix)
    c.append({"cls": "binary", "n": 4, "asrt": 1, "ops": [["T", 0, [1, 2], "none"], ["P", 1, None, "none"], ["L", 3, 1, "none"], ["D", 0]]})
    c.append({"cls": "binary", "n": 4, "asrt": 1, "ops": [["T", 0, [1, 2], "none"], ["L", 3, 1, "none"], ["D", 0], ["T", 0, [], "none"],
                                          ["T", 3, [2, 1], "post"], ["T", 3, [2, 1], "none"], ["P", 2, None, "pre"], ["P", 2, 0, "none"]]})
    # D2 witness: `del b.children` must leave two empty slots and the node must still accept children
    c.append({"cls": "binary", "n": 4, "asrt": 1, "ops": [["C", 0, [1, 2], "none"], ["D", 0], ["P", 3, 0, "none"], ["P", 1, 0, "none"],
                                          ["P", 2, 0, "none"]]})
    c.append({"cls": "binary", "n": 3, "asrt": 1, "ops": [["R", 0, 1, "none"], ["D", 0], ["L", 0, 2, "none"], ["D", 0], ["D", 0]]})
    # mutant "only un-parents the first orphan on rollback": failing children assignment with two orphans
    for f in ("pre", "post"):
        c.append({"cls": "binary", "n": 3, "asrt": 1, "ops": [["C", 0, [1, 2], f], ["C", 0, [2, 1], f]]})
        c.append({"cls": "binary", "n": 5, "asrt": 1, "ops": [["C", 0, [1, 2], "none"], ["C", 0, [3, 4], f], ["C", 0, [4, 3], f]]})
    # children taken from another parent's slots (both, one, swapped), failing and succeeding
    for f in FAULTS:
        c.append({"cls": "binary", "n": 5, "asrt": 1, "ops": [["C", 0, [1, 2], "none"], ["C", 3, [2, 1], f], ["C", 4, [1, None], f],
                                              ["C", 4, [None, 2], f]]})
        c.append({"cls": "binary", "n": 4, "asrt": 1, "ops": [["C", 0, [1, 2], "none"], ["L", 3, 2, f], ["R", 3, 1, f]]})
    # node.left = node.right (repeat), node.right = node.left
    c.append({"cls": "binary", "n": 3, "asrt": 1, "ops": [["C", 0, [1, 2], "none"], ["L", 0, 2, "none"], ["R", 0, 1, "none"],
                                          ["C", 0, [1, 1], "none"]]})
    # attach by parent: left before right, refusal when full, re-attach to the same parent moves right -> left
    c.append({"cls": "binary", "n": 4, "asrt": 1, "ops": [["P", 1, 0, "none"], ["P", 2, 0, "none"], ["P", 3, 0, "none"], ["P", 3, 0, "post"],
                                          ["P", 1, None, "none"], ["P", 2, 0, "none"], ["P", 3, 0, "none"]]})
    # loops, self, non-node, wrong lengths
    c.append({"cls": "binary", "n": 3, "asrt": 1, "ops": [["P", 1, 0, "none"], ["P", 2, 1, "none"], ["P", 0, 2, "none"], ["P", 0, 0, "none"],
                                          ["C", 2, [0, None], "none"], ["C", 2, [2, None], "none"], ["C", 0, [3, None], "none"],
                                          ["C", 0, [1], "none"], ["C", 0, [1, 2, None], "none"], ["C", 0, None, "none"],
                                          ["C", 0, [], "none"], ["P", 1, 4, "none"], ["P", 1, 5, "none"]]})
    # seeded C11-m10 (a failing list_to_binarytree leaves the module-level ASSERTIONS switched off): after the
    # interlude every invalid assignment must still be refused
    for var in (0, 2):
        c.append({"cls": "binary", "n": 3, "asrt": 1, "inter": {"1": var},
                  "ops": [["P", 1, 0, "none"], ["L", 0, 4, "none"], ["P", 0, 1, "none"], ["C", 2, [2, None], "none"],
                          ["C", 0, [1, 1], "none"], ["R", 2, 3, "none"]]})
    # one-off probe (the history itself is empty): BinaryNode trees built by list_to_binarytree, lengths 1..33 and
    # around 64, 256, 512, 1024 (seeded C11-m14: a bulk path for long lists that wires a one-element slot list)
    c.append({"cls": "binary", "n": 1, "asrt": 1, "ops": [["P", 0, None, "none"]], "probe": "heap"})
    # sort: only with two children
    c.append({"cls": "binary", "n": 3, "asrt": 1, "ops": [["P", 1, 0, "none"], ["S", 0, "s"], ["P", 2, 0, "none"], ["S", 0, "s"], ["S", 0, "k"],
                                          ["S", 0, "s"]]})
    return c


def gen(rng: random.Random, tier: str):
    cases = [mk_case(d, ("corpus",)) for d in corpus()]
    cases += [mk_case(d, ("alias-probe",)) for d in gen_alias_probes()]
    if tier == "quick":
        exh = gen_exhaustive(3)
    else:
        exh = gen_exhaustive(4)
    cases += [mk_case(d, tags) for d, tags in exh]
    for d in gen_histories(rng, tier, 0.25):
        cases.append(mk_case(d, ("random", "n=%d" % d["n"], "len>=20" if len(d["ops"]) >= 20 else "len<20")))
    return [with_inorder(c) for c in cases]


def with_inorder(case):
    """checks-on histories also compare inorder_iter from one node (a function of the case: the generator's random
    stream is untouched) and is_leaf of every node of the final state with the model's read-back (BinBridge.*)"""
    d = case.data
    if d.get("asrt", 1) != 1 or d["n"] < 1:
        return case
    nd = dict(d, inorder=zlib.crc32(case.line.encode()) % d["n"])
    return mk_case(nd, tuple(case.tags) + ("inorder",))


# ------------------------------------------------------------------ plug-ins for C02 / C20 (BinaryNode part)
def gen_c02(rng, tier):
    """cases for C02 (cls=binary): corpus + every reachable store on <=3 (quick) / <=4 (thorough) nodes x every
    assignment (parent/children/left/right, every argument tuple) with every fault + random histories with
    ~50 % faults; handler line format = C11's"""
    cases = [mk_case(d, ("binary", "corpus")) for d in corpus()]
    cases += [mk_case(d, ("binary", "alias-probe")) for d in gen_alias_probes()
              if any(len(o) == 4 and o[3] != "none" for o in d["ops"])]
    for d, tags in gen_exhaustive(3 if tier == "quick" else 4):
        if d["ops"][-1][0] in ("P", "C", "T", "L", "R"):
            cases.append(mk_case(d, ("binary",) + tuple(tags)))
    for d in gen_histories(rng, tier, 0.5):
        cases.append(mk_case(d, ("binary", "random")))
    return cases


def oracle_c02_case(case):
    return oracle_c02(case.data)


def nontrivial_c02(case):
    """a raising call on a store that already has links"""
    d = case.data
    return len(d["ops"]) >= 2 and nontrivial(case)


def accepted_subhistory(data):
    """the ops of the history that the REAL code accepts with the checks on, in order (C20 domain);
    rejected ops change nothing (C02), so dropping them leaves the accepted ones accepted"""
    with _Assertions(True):
        w = World(data["n"], inter=data.get("inter"))
        keep = [op for op in data["ops"] if w.apply(op)]
    return dict(data, ops=keep)


def nontrivial(case):
    d = case.data
    return d["n"] >= 2 and any(any(a is not None for a in op_args(op)) for op in d["ops"])


def shrink(case):
    d = case.data
    ops = d["ops"]
    for i in range(len(ops) - 1, -1, -1):
        nd = dict(d, ops=ops[:i] + ops[i + 1:])
        yield mk_case(nd, case.tags)
    for i, op in enumerate(ops):
        if len(op) == 4 and op[3] != "none":
            nd = dict(d, ops=ops[:i] + [op[:3] + ["none"]] + ops[i + 1:])
            yield mk_case(nd, case.tags)


# ------------------------------------------------------------------ known findings (none for C11)
def replay_known(entry):
    return False


def is_known(case, msg, entries):
    return False


# ------------------------------------------------------------------ self-test of the oracle (manual)
def selftest():
    """the oracle must see (i) the pinned pre-fix deleter (D2) and (ii) the mutant that only
    un-parents the first orphan on rollback.  Run: /venv/bin/python -c 'import props.C11 as m; m.selftest()'"""
    from bigtree import BinaryNode
    base = faulty_class()

    class PreFix(base):
        pass

    def _del(self):
        for child in self.children:
            if child is not None:
                child.parent._BinaryNode__children.remove(child)
                child._BinaryNode__parent = None
    PreFix.children = BinaryNode.children.deleter(_del)
    old = _CLS["c"]
    try:
        _CLS["c"] = PreFix
        d = {"cls": "binary", "n": 4, "asrt": 1, "ops": [["C", 0, [1, 2], "none"], ["D", 0], ["P", 3, 0, "none"]]}
        m1 = oracle_history(d)
        assert m1 and "slots" in m1[0], m1
    finally:
        _CLS["c"] = old
    print("selftest: pre-fix deleter detected:", m1[0][:90])


RULE = ("one case = one whole history on n fresh BinaryNode objects (user subclass whose 4 hooks raise on demand); "
        "exhaustive part: every store reachable on <=N nodes (found breadth-first on the real code) x every op "
        "(parent/children/left/right/del/sort) x every argument tuple over {None, every node, a non-node} "
        "(lists and tuples of length 0,1,2,3 and a non-list) x fault in {none,pre,post}; list-sharing probes: every pair of ways "
        "two nodes get an empty slot list installed x in-place writes; random part: 4-8 nodes, 1-40 ops, "
        "~25% faults, ~20% invalid arguments; every case additionally compares, on the final state, inorder_iter from one "
        "node and is_leaf of every node with the model's read-back of its final store (BinStore.btreeOf, the bridge to "
        "C04/C12: order-exact); non-trivial = n>=2 and at least one op names a node argument; "
        "distinct = distinct protocol lines")
EXHAUSTIVE = {
    "quick": "all 49 binary forests reachable on <=3 labelled nodes (1+5+43) x every op x every argument tuple incl. invalid x every fault point: every single transition is compared",
    "thorough": "all 578 binary forests reachable on <=4 labelled nodes (1+5+43+529) x every op x every argument tuple incl. invalid x every fault point",
}
MODELLED = [
    "BinaryNode objects are ids 0..n-1; _BinaryNode__parent / _BinaryNode__children are the model's parent / slots (slots is the raw Python list, so len(children) is state)",
    "a list or tuple argument of the children setter is the list of its items (since the D7 fix the setter copies it); set arguments are accepted by the base type check but their iteration order is arbitrary: they are not generated and not modelled",
    "user hooks may raise at the four documented points and do not mutate links; sort(**kw) is represented by what the key does to two children (keep/swap)",
    "with ASSERTIONS off, arguments that are not BinaryNode objects are outside the model (Python dies half-way with AttributeError); the driver answers bad-op",
]
ASSUMPTIONS = [
    "object identity <-> equality of ids; exceptions by kind (ok/rej), messages not modelled",
    "node names play no role for BinaryNode links (the BinaryNode parent setter never runs Node's duplicate-path hook)",
]
NOT_READY = False
LEVEL_TEXT = ("proof: Lean 4 kernel-checked invariant BWF (two raw slots, each node in exactly one slot of its parent and of "
              "nobody else, acyclic, ids in range) over every history of parent/children/left/right/del/sort on the "
              "statement-level model of binarynode.py, for every argument (None, non-node, self, ancestor, repeated member, "
              "any list length) and every hook fault; effect theorems slot_move, parent_first_empty, parent_full_rej, "
              "delChildren_empties_both, sort_effect; rejected calls leave the store unchanged. Bridge theorems BinBridge.* connect "
              "this store with the binary trees (BTree) on which in-order traversal (C04) and the BinaryNode queries (C12) are "
              "specified: the read-back btreeOf (follow .left/.right recursively, empty slot = nil) of a well-formed store is "
              "fuel-independent (btreeOf_fuel, btreeOf_unfold), lists exactly a node and its descendants once each "
              "(btreeOf_ids), its two subtrees are the read-backs of the store's left/right slots, which agree with the parent "
              "pointers (btreeOf_slots); hence in every state reachable by any history of BinaryNode calls the in-order "
              "iterator lists every descendant-or-self once, each subtree as one block left subtree - node - right subtree "
              "(inorder_transfer), and is_leaf holds exactly of the nodes with two empty slots (is_leaf_transfer)")
LEVEL_NOTE = ("the model is hand-written and tied to /repo by the correspondence check: every transition from every binary "
              "forest reachable on <=3 (quick) / <=4 (thorough) nodes, plus random histories on 4-8 nodes, compared after "
              "every call (outcome, parent, len(children), left, right of every node)")
TECHNIQUE = "machine-checked proof (Lean 4) of an invariant + effect lemmas on an executable model; differential correspondence check against the real BinaryNode"
RULE = RULE + ' Fourth session: interludes - between two operations a library call on other objects fails half-way (list_to_binarytree refusing a list, a node type whose constructor raises); the model never sees it.'
