"""C02 — a rejected or failing structural assignment changes nothing.

The property ranges over four node classes.  Each class is a *plug-in*: a triple
(generator, impl-adapter, oracle) registered in PLUGINS under the value of `cls=` in the case line
(`data["cls"]`); `gen` concatenates the plug-ins' cases, `impl`/`oracle`/`shrink` dispatch on it.
This file registers BaseNode/Node (`cls=base|node`, pointer store of C01); the BinaryNode and
DAGNode plug-ins are registered the same way (see `register`)."""
from __future__ import annotations
import random, zlib
from runner import Case
from props import _store_util as U

THEOREMS = ["C02.setParent_rej_id", "C02.setChildren_rej_id", "C02.setChildren_rej_id_unchecked", "C02.step_rej_id",
            "C02.prefix_rollback_not_identity",
            "BinStore.setParent_rej_id", "BinStore.setChildren_rej_id", "BinStore.setChildren_rej_id_any", "BinStore.setLeft_rej_id", "BinStore.setRight_rej_id", "BinStore.step_rej_id", "BinStore.step_rej_id_any", "DagStore.setParents_rej_id", "DagStore.setChildren_rej_id", "DagStore.step_rej_id"]
PLUGINS = {}      # cls value -> dict(gen=, impl=, oracle=, shrink=, nontrivial=)


def register(cls_values, gen, impl, oracle, shrink=None, nontrivial=None, compare=None):
    """plug a node class in: `gen(rng, tier) -> [Case]` (every case's data["cls"] in cls_values),
    `impl(case) -> str`, `oracle(case) -> [str]`, optional `shrink(case)`, `nontrivial(case)`"""
    p = dict(gen=gen, impl=impl, oracle=oracle, shrink=shrink, nontrivial=nontrivial, compare=compare)
    for c in cls_values:
        PLUGINS[c] = p


RULE = ("histories of structural assignments with ~50 % failing calls (wrong type, loop, repeated child, duplicate "
        "sibling name, user hook raising before / after the assignment); after every call the outcome and the whole "
        "store are compared; oracle: snapshot before == after whenever the call raised.  Exhaustive part (base/node): "
        "every reachable forest on N nodes x every failing parent/children assignment.  Non-trivial: a raising call on a "
        "store that already has links.")
EXHAUSTIVE = {
    "quick": "BaseNode/Node: all forests reachable on <= 3 nodes x every parent/children assignment with every argument tuple and every hook fault",
    "thorough": "BaseNode: the same on 4 nodes (193 forests); Node on <= 3 nodes and 4 nodes with a name clash",
}
MODELLED = ["snapshot = parent and ordered child list of every node, read through the public properties",
            "extend() is a documented loop of assignments: only its individual steps are atomic"]
ASSUMPTIONS = ["user hooks raise or return, they do not mutate links themselves"]

SETTERS = ("P", "C", "K", "L", "A", "R")


# ------------------------------------------------------------------ plug-in: BaseNode / Node
def mk_case(d, tags=()):
    return Case(U.mk_line(d), d, tags)


def _store_corpus():
    out = []
    for cls, names in (("base", []), ("node", ["p", "x", "y", "z", "q", "w"])):
        # D1: p.children=[x,y,z]; failing q.children=[y,x] must leave p.children=[x,y,z]
        for cs in ([2, 1], [3, 1], [3, 2, 1], [2, 3, 1], [3, 1, 2], [1, 3], [2, 1, 5], [5, 3, 1]):
            for f in ("post", "pre"):
                out.append(mk_case(U.mk_data(cls, 6, names, "/", [["C", 0, [1, 2, 3], "none"], ["C", 4, cs, f]]), ("corpus", "D1")))
        # two orphans + stolen, children already under the target, donor itself stolen
        out.append(mk_case(U.mk_data(cls, 6, names, "/", [["C", 0, [1, 2], "none"], ["C", 3, [4, 1, 5, 2], "post"]]), ("corpus", "orphans")))
        out.append(mk_case(U.mk_data(cls, 6, names, "/", [["C", 0, [1, 2, 3], "none"], ["C", 0, [3, 4, 1], "post"]]), ("corpus", "already-under")))
        out.append(mk_case(U.mk_data(cls, 6, names, "/", [["C", 0, [1, 2], "none"], ["C", 1, [3, 4], "none"], ["C", 5, [4, 1, 3], "post"]]), ("corpus", "donor-stolen")))
        out.append(mk_case(U.mk_data(cls, 6, names, "/", [["C", 0, [1, 2, 3, 4], "none"], ["P", 2, 0, "post"], ["P", 2, 5, "post"], ["P", 2, None, "post"], ["P", 1, 0, "post"]]), ("corpus", "parent")))
    names7 = ["r", "a", "b", "ab", "ba", "aa", "q"]
    for cls, names in (("base", []), ("node", names7)):
        for take in ([2, 4], [4, 2], [5, 1, 3], [5, 4, 3, 2, 1], [3, 5, 2, 4], [4, 5], [5, 3], [4, 1, 5, 2]):
            out.append(mk_case(U.mk_data(cls, 7, names, "/", [["C", 0, [1, 2, 3, 4, 5], "none"], ["C", 6, take, "post"]]), ("corpus", "donor>=4")))
    return out


def _store_gen(rng: random.Random, tier: str):
    cases = _store_corpus()
    plan = [("base", 2, []), ("base", 3, []), ("node", 3, ["a", "b", "a"])]
    if tier == "thorough":
        plan += [("base", 4, []), ("node", 3, ["a", "ab", "b"]), ("node", 4, ["a", "b", "a", "ab"])]
    for cls, n, names in plan:
        uni = U.arg_universe(n, cls, names)
        paths = U.explore(cls, n, names, "/", uni)
        failing = [o for o in uni if o[0] in SETTERS]
        for _st, path in paths.items():
            for op in failing:
                cases.append(mk_case(U.mk_data(cls, n, names, "/", path + [op]), ("enum", f"enum-{cls}-n={n}") + tuple(U.op_tags(op))))
    nr = 400 if tier == "quick" else 6000
    for i in range(nr):
        cls = "base" if i % 2 == 0 else "node"
        n = rng.randint(5, 9)
        names = [rng.choice(U.NAMES[:5]) for _ in range(n)] if cls == "node" else []
        ops = U.random_history(rng, cls, n, names, "/", rng.randint(2, 40), fault_rate=0.5, bad_rate=0.3)
        tags = ["random", f"random-{cls}", "n=%d" % n] + [t for op in ops for t in U.op_tags(op)]
        cases.append(mk_case(U.mk_data(cls, n, names, "/", ops), tags))
    return cases


def _store_impl(case):
    _nodes, tr = U.run_trace(case.data)
    return U.show_trace(tr)


def _store_oracle(case):
    d = case.data
    nodes = U.make_nodes(d)
    msgs = []
    before = U.snap(nodes)
    for i, op in enumerate(d["ops"]):
        o = U.apply_op(nodes, op)
        if o == "hang":
            return [f"op {i} {U.fmt_op(op)} did not return within {U.HANG_SECONDS} s"]
        after = U.snap(nodes)
        if o == "rej" and op[0] != "E" and after != before:
            msgs.append(f"op {i} {U.fmt_op(op)} raised but changed the store: {U.show_snap(before)} -> {U.show_snap(after)}")
            break
        if not U.healthy(nodes):
            break
        before = after
    if not msgs and ("corpus" in case.tags or zlib.crc32(case.line.encode()) % 23 == 0):
        msgs += _off_process(d)
    return msgs


def _off_process(d):
    """C02 does not depend on the optional type/loop checks: a history in which the guards never have anything to
    refuse (every refusal comes from a raising user hook or from Node's duplicate-name veto) must leave the very
    same trace in an interpreter started with BIGTREE_CONF_ASSERTIONS="" - in particular every refused call must
    still restore the store."""
    nodes = U.make_nodes(d)
    before = U.snap(nodes)
    for op in d["ops"]:
        if op[0] in ("K", "N", "F") or (d.get("asrt", 1) and U.must_reject(before, op, d["n"])):
            return []          # a guard has something to refuse here: outside this comparison
        if op[0] == "E" and any(c >= d["n"] or c == op[1] or c in U._anc(before, op[1]) for c in op[2]):
            return []          # extend() is a loop of appends: one of its members is a non-node, the node itself or an ancestor
        if U.apply_op(nodes, op) == "hang" or not U.healthy(nodes):
            return []
        before = U.snap(nodes)
    from props import _twoproc
    here = U.show_trace(U.run_trace(d)[1])
    there = _twoproc.call("off", "props._store_util:worker_eval", d)["trace"]
    if here != there:
        k = next((i for i, (a, b) in enumerate(zip(here.split(" ; "), there.split(" ; "))) if a != b), "?")
        return [f"with BIGTREE_CONF_ASSERTIONS switched off (no guard has anything to refuse in this history) the trace "
                f"differs from call #{k} on: default={here[-200:]} off={there[-200:]}"]
    return []


def _store_shrink(case):
    for d in U.shrink_history(case.data):
        yield Case(U.mk_line(d), d, case.tags)


def _store_nontrivial(case):
    d = case.data
    return len(d["ops"]) >= 2 and any(U.op_tags(o)[1:] for o in d["ops"])


register(("base", "node"), _store_gen, _store_impl, _store_oracle, _store_shrink, _store_nontrivial)


# ------------------------------------------------------------------ runner interface
def _plugin(case):
    return PLUGINS[case.data["cls"]]


def gen(rng: random.Random, tier: str):
    cases = []
    seen = []
    for p in PLUGINS.values():
        if any(p is q for q in seen):
            continue
        seen.append(p)
        cases += list(p["gen"](rng, tier))
    for d in U.drain_unhealthy():   # exploration met a store that is not a forest: let the tie and the oracle see it
        cases.append(mk_case(d, ("explore-unhealthy",)))
    return cases


def rehydrate(case):
    return Case(case.line, case.data)


def impl(case):
    return _plugin(case)["impl"](case)


def oracle(case):
    return _plugin(case)["oracle"](case)


def shrink(case):
    f = _plugin(case)["shrink"]
    return f(case) if f else ()


def nontrivial(case):
    f = _plugin(case)["nontrivial"]
    return f(case) if f else True


def compare(a, b, case=None):
    f = _plugin(case)["compare"] if case is not None else None
    return f(a, b, case) if f else a == b


# BinaryNode and DAGNode plug-ins (props/_plug.py, on top of props/C11.py and props/C10.py)
from props import _plug  # noqa: E402
register(*_plug.c02_binary())
register(*_plug.c02_dag())


NOT_READY = False
LEVEL_TEXT = 'Proof (BaseNode/Node, BinaryNode and DAGNode stores). On the statement-level model of the parent and children setters the EXECUTED roll-back code is proved to restore the snapshot: C02.setParent_rej_id, setChildren_rej_id (checks on) / setChildren_rej_id_unchecked (checks off, guard-accepted arguments), step_rej_id (every API call except the documented loop extend): whenever the outcome is a rejection - wrong type, self/ancestor loop, repeated child, duplicate sibling name, user hook raising before or after the assignment - the resulting store EQUALS the store before the call (every parent, every child list in order, names, separators), for every well-formed store. Key lemma reinsert_one/restore_fold: re-inserting the stolen children in ascending original index (the D1 repair) rebuilds each donor list; prefix_rollback_not_identity is the kernel-checked counter-example for the pre-fix dict-order roll-back (p.children=[x,y,z], failing q.children=[y,x] gives [x,z,y]). Tied to /repo on every run by differential testing of histories with ~50 % failing calls on hook-raising user subclasses; the oracle compares full snapshots before/after every raising call.'
LEVEL_NOTE = 'Exhaustive tie: every forest reachable on <=3 / <=4 nodes x every parent/children assignment x every argument tuple x every hook fault; corpus: D1 witness in every order, donors with >= 4 children, two orphans, children already under the target, donor itself stolen. extend() is a documented loop: only its steps are atomic. Hooks raise or return, they do not mutate links.'
TECHNIQUE = 'Lean 4 proof that roll-back ∘ body = identity on well-formed stores (fold invariants over the restoring loop) + correspondence check + before/after snapshot oracle'
RULE = RULE + ' Fifth session: the DAG histories pass one-shot iterators as children arguments (D13/D14); an extend() with a loop member takes a history out of the checks-off comparison.'
