"""C08 — shift / copy / replace perform exactly the documented edit and nothing else.

Case data (JSON-able):
  fn    : shift | copy | replace | t2t | t2treplace      (the five public functions)
  dst   : spec of the destination tree (for the same-tree functions: THE tree)
  src   : spec of the source tree (tree-to-tree functions) or None
  dsep, ssep : separators of the two trees;  sep : the `sep` argument
  flags : [skippable, overriding, merge_children, merge_leaves, delete_children, with_full_path] as 0/1
  from  : list of from-path strings;  to : list of to-path strings / None
Ids: pre-order index, source tree first, then destination tree; objects created by the call print as `new`.
"""
from __future__ import annotations
import itertools, random
import core
from core import hx
from runner import Case

THEOREMS = [
    "C08.pairs_fold", "C08.pairs_fold_ok", "C08.pairs_fold_needs_valid", "C08.prefix_loop_not_fold",
    "C08.shift_ok", "C08.shift_paths_gen", "C08.shift_paths", "C08.shift_keeps_ids", "C08.shift_frame",
    "C08.delete_children_paths", "C08.overriding_paths", "C08.merge_children_paths", "C08.merge_leaves_paths",
    "C08.replace_keeps_position", "C08.replace_later_sibling_observation",
    "C08.replace_pairs_fold", "C08.replace_source_untouched",
    "Modify.FromOK.full", "Modify.FromOK.partial",
    "C08.copy_ok", "C08.copy_paths", "C08.copy_fresh_ids", "C08.copy_origin_untouched",
    "C08.source_untouched", "C08.t2t_copy", "C08.delete_paths",
    "C08.frame_all_flags_step", "C08.frame_all_flags", "C08.frame_all_flags_mem",
    "C08.replace_frame_all_flags_step", "C08.replace_frame_all_flags_mem",
    "C08.resolveFrom_objs", "C08.nothing_invented_step", "C08.nothing_invented", "C08.nothing_invented_call",
    "C08.replace_nothing_invented_step", "C08.replace_nothing_invented",
            "C08.find_full_path_printed_multi", "C08.comps_printed_multi"]
PROOF_IMPORTS = ["BigtreeProofs.Properties.C08", "BigtreeProofs.Properties.C08Multi"]
FLAGS = ["skippable", "overriding", "merge_children", "merge_leaves", "delete_children", "with_full_path"]
SK, OV, MC, ML, DC, FP = range(6)
FNS = ["shift", "copy", "replace", "t2t", "t2treplace"]
NAMED = ("NotFoundError", "TreeError", "ValueError", "SearchError")
SEPS = ["/", "/", "/", "/", "\\", ".", "-", "::", "|", "->"]

RULE = ("five public functions x all 2^6 flag combinations x 1-3 (from,to) pairs; trees: all ordered shapes up to N nodes "
        "with branch-repeating names (exhaustive stream: every from-node x every destination parent (+ a missing "
        "intermediate) x every flag combination), random trees (2-14 nodes, names from a 5-letter alphabet so that "
        "destinations often exist and partial paths are sometimes ambiguous), from-nodes with 5-8 children, full and "
        "partial from-paths, leading/trailing separators, 7 separators incl. multi-character, tree-to-tree with different "
        "root names; a malformed stream (length mismatch, name mismatch, wrong root, copy+delete, both merge flags, missing "
        "from-path); 'stale parent' calls (3-4 pairs in one call: a later pair's destination parent was created or used by an "
        "earlier pair and has meanwhile been moved or deleted by an intermediate pair); some nodes carry a user attribute "
        "with a leading underscore (_hid), which moves and copies with the node; never to_path=None with a merge flag, never a destination strictly inside the shifted subtree. "
        "non-trivial = at least one pair whose from-node exists and is not the root, tree >= 3 nodes; distinct = distinct lines")
EXHAUSTIVE = {
    "quick": "all ordered tree shapes with <= 4 nodes (child k of every node is named by the k-th letter, so paths repeat "
             "across branches) x every non-root from-node x every destination parent (existing node, or existing node + "
             "one missing intermediate) + delete x all 64 flag combinations x {shift_nodes, copy_nodes}, full from-paths "
             "(the 16 combinations with both merge flags are refused before any path is looked at: one destination each)",
    "thorough": "same with <= 5 nodes",
}
MODELLED = [
    "a reference to a node is modelled as its list of names below the root (sibling names are unique, C03); child lookup by name is first-match",
    "deep copies are modelled as relabelling with fresh ids; the state left behind by a raised exception is not modelled",
    "exceptions are modelled by kind: ValueError / NotFoundError / TreeError / SearchError, everything else (LoopError, AttributeError) as one kind",
]
ASSUMPTIONS = [
    "sibling names are unique and non-empty and contain no character of the separators in use (what Node enforces / what paths need)",
    "the per-flag theorems assume a single-character separator (frame_all_flags / nothing_invented have no hypothesis on strings; find_full_path_printed_multi / comps_printed_multi give the string layer - printed path -> names -> node - for every non-empty separator); multi-character separators in whole calls are covered by the correspondence only",
    "out of scope (DESIGN §5): to_path=None together with merge_children/merge_leaves; destinations strictly inside the subtree being shifted",
]


# ---------------------------------------------------------------- protocol line
def _is_copy(fn):
    return fn in ("copy", "t2t", "t2treplace")


def _line(d):
    ctr = itertools.count()
    parts = []
    s_part = None
    if d["src"] is not None:
        s_part = core.enc_tree(d["src"], ctr)
    d_part = core.enc_tree(d["dst"], ctr)
    n = next(ctr)
    fsep = d["ssep"] if d["src"] is not None else d["dsep"]
    parts.append("fn=%s" % ("rp" if d["fn"] in ("replace", "t2treplace") else "cs"))
    parts.append("copy=%d" % (1 if _is_copy(d["fn"]) else 0))
    parts.append("flags=" + "".join(str(int(b)) for b in d["flags"]))
    parts.append("sep=" + hx(d["sep"]))
    parts.append("fsep=" + hx(fsep))
    parts.append("tsep=" + hx(d["dsep"]))
    parts.append("n=%d" % n)
    parts.append("from=" + (",".join(hx(p) for p in d["from"]) if d["from"] else "-"))
    parts.append("to=" + (",".join("N" if p is None else hx(p) for p in d["to"]) if d["to"] else "-"))
    if s_part is not None:
        parts.append("S " + s_part)
    parts.append("D " + d_part)
    return " ".join(parts)


def mk_case(d, tags=()):
    return Case(_line(d), d, tags)


def rehydrate(case):
    return Case(case.line, case.data)


# ---------------------------------------------------------------- real side
def _build(d):
    """-> (src_root|None, dst_root, IdMap)"""
    nodes = []
    src_root = None
    if d["src"] is not None:
        src_root, sn = core.build_node_tree(d["src"], sep=d["ssep"])
        nodes += sn
    dst_root, dn = core.build_node_tree(d["dst"], sep=d["dsep"])
    nodes += dn
    return src_root, dst_root, core.IdMap(nodes)


def _call(d, src_root, dst_root, froms, tos):
    from bigtree.tree import modify
    fl = d["flags"]
    kw = dict(sep=d["sep"], skippable=bool(fl[SK]), delete_children=bool(fl[DC]), with_full_path=bool(fl[FP]))
    if d["fn"] in ("shift", "copy", "t2t"):
        kw.update(overriding=bool(fl[OV]), merge_children=bool(fl[MC]), merge_leaves=bool(fl[ML]))
    fn = d["fn"]
    if fn == "shift":
        modify.shift_nodes(dst_root, froms, tos, **kw)
    elif fn == "copy":
        modify.copy_nodes(dst_root, froms, tos, **kw)
    elif fn == "replace":
        modify.shift_and_replace_nodes(dst_root, froms, tos, **kw)
    elif fn == "t2t":
        modify.copy_nodes_from_tree_to_tree(src_root, dst_root, froms, tos, **kw)
    elif fn == "t2treplace":
        modify.copy_and_replace_nodes_from_tree_to_tree(src_root, dst_root, froms, tos, **kw)
    else:
        raise KeyError(fn)


def _attrs(n):
    a = dict(n.describe(exclude_prefix="_", exclude_attributes=["name"]))
    if "_hid" in vars(n):     # a user attribute with a leading underscore (set by the harness): part of the node as well
        a["_hid"] = vars(n)["_hid"]
        a = dict(sorted(a.items()))
    return a


def _ident(ids, n):
    i = ids(n)
    return "new" if i == "?" else str(i)


def _canon(ids, n):
    return " ".join(["(", _ident(ids, n), hx(n.name), core.enc_attrs(_attrs(n))] + [_canon(ids, c) for c in n.children] + [")"])


def _cls(e):
    nm = type(e).__name__
    return nm if nm in NAMED else "rej"


def _run(d, froms, tos):
    """fresh trees, one call -> (outcome string, src_root, dst_root, ids)"""
    src_root, dst_root, ids = _build(d)
    fl, tl = list(froms), list(tos)
    try:
        _call(d, src_root, dst_root, fl, tl)
    except Exception as e:  # noqa: BLE001 - the class is the observable
        return _cls(e), src_root, dst_root, ids
    if fl != list(froms) or tl != list(tos):
        # the two path lists belong to the caller (who may reuse them for the next tree)
        return "caller-lists-modified", src_root, dst_root, ids
    out = "ok " + _canon(ids, dst_root)
    if src_root is not None:
        out += " | " + _canon(ids, src_root)
    return out, src_root, dst_root, ids


def impl(case):
    d = case.data
    return _run(d, d["from"], d["to"])[0]


def worker_impl(d):
    """executed in a worker interpreter (props/_twoproc.py): the outcome line of one case"""
    return _run(d, d["from"], d["to"])[0]


# ---------------------------------------------------------------- oracle (model-free)
def _snap(ids, root):
    """pre-order [(path, ident, attrs, child names)] with absolute name paths"""
    out = []
    def go(n, p):
        out.append((p, _ident(ids, n), _attrs(n), [c.name for c in n.children]))
        for c in n.children:
            go(c, p + (c.name,))
    go(root, (root.name,))
    return out


def _comps(path, sep):
    """components of a path string written with `sep`: leading/trailing separators are optional"""
    s = path
    while sep and s.endswith(sep):
        s = s[: -len(sep)]
    while sep and s.startswith(sep):
        s = s[len(sep):]
    return tuple(s.split(sep)) if s != "" else ()


def _addressed(snap, root_sep, path, arg_sep, full):
    """the from-node the documentation describes: full path, or unique node whose path ends with the partial path.
    -> ('one', path) | ('none',) | ('many',) | ('badroot',)"""
    if full:
        c = _comps(path, arg_sep)
        if not c or c[0] != snap[0][0][0]:
            return ("badroot",)
        return ("one", c) if any(p == c for p, *_ in snap) else ("none",)
    s = path
    while arg_sep and s.endswith(arg_sep):
        s = s[: -len(arg_sep)]
    s = s.replace(arg_sep, root_sep)
    hits = [p for p, *_ in snap if (root_sep + root_sep.join(p)).endswith(s)]
    if not hits:
        return ("none",)
    return ("one", hits[0]) if len(hits) == 1 else ("many",)


class _Abstain(Exception):
    """the oracle does not judge this pair; excluded=True: outside the property's domain (DESIGN §5), never generated"""
    def __init__(self, msg, excluded=False):
        super().__init__(msg)
        self.excluded = excluded


def _expect_pair(d, pre_dst, pre_src, f, t, walk=False):
    """documented outcome of ONE pair on the pre-state. -> ('rej', {classes}) | ('ok', {path: (ident, attrs)}, info).
    walk=True (generator only): also follow the code through the corners the documentation is silent about
    (root as from-node / as destination) instead of abstaining, so that later pairs can be classified."""
    fl = d["flags"]
    fn = d["fn"]
    copy = _is_copy(fn)
    t2t = d["src"] is not None
    replace = fn in ("replace", "t2treplace")
    mc, ml, ov, dc = (bool(fl[MC]), bool(fl[ML]), bool(fl[OV]), bool(fl[DC])) if not replace else (False, False, False, bool(fl[DC]))
    fsnap = pre_src if t2t else pre_dst
    fsep = d["ssep"] if t2t else d["dsep"]
    droot = pre_dst[0][0][0]
    if mc and ml:
        return ("rej", {"ValueError"})
    deleting = t is None or t == ""
    if copy and deleting and not replace:
        return ("rej", {"ValueError"})
    tc = None if deleting else _comps(t, d["sep"])
    if tc is not None and len(tc) == 0:
        raise _Abstain("to-path consisting of separators only")
    # validation the docs name: same node name at both ends, paths start at the root
    fc_last = _comps(f, d["sep"])[-1:] if _comps(f, d["sep"]) else ()
    if not replace and tc is not None and fc_last != tc[-1:]:
        return ("rej", {"ValueError"})
    if tc is not None and tc[0] != droot:
        return ("rej", {"ValueError"})
    a = _addressed(fsnap, fsep, f, d["sep"], bool(fl[FP]))
    if a[0] == "badroot":
        return ("rej", {"ValueError"})
    if a[0] == "many":
        return ("rej", {"SearchError"})
    if a[0] == "none":
        if fl[SK]:
            return ("ok", {p: (i, at) for p, i, at, _ in pre_dst}, {"skipped": True})
        return ("rej", {"NotFoundError"})
    fpath = a[1]
    fname = fpath[-1]
    cur0 = {p: (i, at) for p, i, at, _ in pre_dst}
    if len(fpath) == 1 and not t2t:
        # the root as from-node: only "delete" (a no-op on the root itself) and "same node" are meaningful
        if replace:
            if tc is not None and tc not in cur0:
                return ("rej", {"NotFoundError"})
            if tc == fpath:
                return ("rej", {"TreeError"})
            raise _Abstain("destination inside the shifted subtree", excluded=not copy)
        if deleting:
            if mc or ml:
                raise _Abstain("delete together with a merge flag", excluded=True)
            if not walk:
                raise _Abstain("deleting the root")
            if dc:
                cur0 = {p: v for p, v in cur0.items() if len(p) == 1}
            return ("ok", cur0, {"quirk": True})
        if tc == fpath:
            return ("rej", {"rej"} if (mc or ml) else {"TreeError"})
        raise _Abstain("destination inside the addressed subtree", excluded=not copy)
    # the addressed subtree (relative paths), as it is before the call
    F = [(p[len(fpath):], i, at, kids) for p, i, at, kids in fsnap if p[: len(fpath)] == fpath]
    cur = {p: (i, at) for p, i, at, _ in pre_dst}
    def remove(prefix, strict=False):
        for p in [p for p in cur if p[: len(prefix)] == prefix and (not strict or len(p) > len(prefix))]:
            del cur[p]
    def ident(i):
        return "new" if copy else i
    info = {"fpath": fpath, "copy": copy}
    if replace:
        if tc is None:
            raise _Abstain("replace with to_path None")
        if tc not in cur:
            return ("rej", {"NotFoundError"})
        if not t2t and tc == fpath:
            return ("rej", {"TreeError"})
        if len(tc) == 1:
            raise _Abstain("replacing the root")
        if not t2t and not copy and tc[: len(fpath)] == fpath:
            raise _Abstain("destination inside the shifted subtree", excluded=True)
        P = tc[:-1]
        remove(tc)
        if not copy:
            remove(fpath)
        if P + (fname,) in cur:
            return ("rej", {"TreeError"})
        for rel, i, at, _ in F:
            if dc and rel:
                continue
            cur[P + (fname,) + rel] = (ident(i), at)
        info.update(P=P, replaced=tc, newroot=P + (fname,))
        return ("ok", cur, info)
    if deleting:
        if mc or ml:
            raise _Abstain("delete together with a merge flag", excluded=True)
        remove(fpath)
        return ("ok", cur, info)
    if not t2t and tc[: len(fpath)] == fpath and len(tc) > len(fpath):
        raise _Abstain("destination inside the addressed subtree", excluded=not copy)
    mode = "children" if mc else ("leaves" if ml else "node")
    if tc in cur:
        if len(tc) == 1 and ov and not ml:
            # "overriding the root": the code detaches nothing and then drops the from-node
            if not walk:
                raise _Abstain("overriding the root")
            if not copy:
                remove(fpath)
            return ("ok", cur, {"quirk": True})
        if not t2t and tc == fpath:
            if mc:
                remove(fpath)
                P = fpath[:-1]
            elif ml:
                P = fpath[:-1]
            else:
                return ("rej", {"TreeError"})
        elif mc:
            if not ov:
                P = tc
            else:
                remove(tc)
                P = tc[:-1]
                mode = "node"
        elif ml:
            if ov:
                remove(tc, strict=True)
            P = tc
        else:
            if not ov:
                return ("rej", {"TreeError"})
            remove(tc)
            P = tc[:-1]
    else:
        P = tc[:-1]
        for k in range(1, len(P) + 1):
            if P[:k] not in cur:
                if P[k - 1] == "":
                    raise _Abstain("empty path component")
                cur[P[:k]] = ("new", {})
    leaf_F = not F[0][3]
    if mode == "leaves" and leaf_F:
        mode = "node-nodc"
    if mode in ("node", "node-nodc"):
        if not copy:
            remove(fpath)
        if P + (fname,) in cur:
            return ("rej", {"TreeError"})
        for rel, i, at, _ in F:
            if dc and rel and mode == "node":
                continue
            cur[P + (fname,) + rel] = (ident(i), at)
    elif mode == "children":
        # the children are attached while the from-node is still in place: a child named like a child of the
        # destination (the from-node itself included) is a duplicate path
        for rel, i, at, _ in F:
            if len(rel) == 1 and P + rel in cur:
                return ("rej", {"TreeError"})
        if not copy:
            remove(fpath)
        for rel, i, at, _ in F:
            if not rel:
                continue
            if dc and len(rel) > 1:
                continue
            cur[P + rel] = (ident(i), at)
    else:  # leaves
        for rel, i, at, kids in F:
            if kids:
                continue
            if not copy and fpath + rel in cur:
                del cur[fpath + rel]
            if P + rel[-1:] in cur:
                return ("rej", {"TreeError"})
            cur[P + rel[-1:]] = (ident(i), at)
    info.update(P=P)
    return ("ok", cur, info)


def _order_ok(pre, post, msgs, what, f_ident=None):
    """objects that are siblings before and after keep their relative order: checked among the nodes the edit does
    not address (same path before and after) and, separately, among the nodes it moved"""
    path_before = {i: p for p, i, _a, _k in pre}
    ident_at = {p: i for p, i, _a, _k in pre}
    par_before = {}   # ident -> (parent ident, index)
    for p, i, _at, kids in pre:
        for k, nm in enumerate(kids):
            par_before[ident_at[p + (nm,)]] = (i, k)
    ident_post = {p: i for p, i, _a, _k in post}
    path_after = {i: p for p, i, _a, _k in post if i != "new"}
    def moved(x):
        return x == f_ident or path_before.get(x) != path_after.get(x)
    for p, i, _at, kids in post:
        seq = [ident_post[p + (nm,)] for nm in kids]
        old = [x for x in seq if x != "new" and x in par_before]
        for grp in ([x for x in old if not moved(x)], [x for x in old if moved(x)]):
            for x, y in zip(grp, grp[1:]):
                px, kx = par_before[x]
                py, ky = par_before[y]
                if px == py and kx > ky:
                    msgs.append(f"{what}: siblings {x},{y} under {'/'.join(p)} changed their relative order")


def _check_pair(d, pre_dst, pre_src, post_dst, post_src, outcome, f, t, msgs, what):
    try:
        exp = _expect_pair(d, pre_dst, pre_src, f, t)
    except _Abstain:
        return
    if exp[0] == "rej":
        if outcome == "ok":
            msgs.append(f"{what}: accepted, but the documented outcome is a rejection {sorted(exp[1])} (from={f!r} to={t!r})")
        elif outcome not in exp[1]:
            msgs.append(f"{what}: rejected with {outcome}, documented class {sorted(exp[1])} (from={f!r} to={t!r})")
        return
    if outcome != "ok":
        msgs.append(f"{what}: valid pair rejected with {outcome} (from={f!r} to={t!r})")
        return
    want = exp[1]
    got = {p: (i, at) for p, i, at, _ in post_dst}
    if got != want:
        miss = sorted(set(want) - set(got))
        extra = sorted(set(got) - set(want))
        diff = sorted(p for p in set(got) & set(want) if got[p] != want[p])
        msgs.append(f"{what}: result differs from the documented edit (from={f!r} to={t!r}): missing paths {miss[:6]}, "
                    f"unexpected paths {extra[:6]}, identity/attrs differ at {[(p, want[p], got[p]) for p in diff[:4]]}")
        return
    info = exp[2]
    f_ident = None
    if d["src"] is None and "fpath" in info:
        f_ident = next((i for p, i, _a, _k in pre_dst if p == info["fpath"]), None)
    _order_ok(pre_dst, post_dst, msgs, what, f_ident)
    # copied subtrees keep the child order of their origin
    if info.get("copy") and "fpath" in info and not info.get("skipped"):
        fsnap = pre_src if d["src"] is not None else pre_dst
        okids = {p: kids for p, _i, _a, kids in fsnap}
        pkids = {p: kids for p, _i, _a, kids in post_dst}
        root_new = info.get("newroot") or (info["P"] + (info["fpath"][-1],) if "P" in info else None)
        fl = d["flags"]
        if root_new and root_new in pkids and not fl[MC] and not fl[ML] and not fl[DC]:
            for p, kids in okids.items():
                if p[: len(info["fpath"])] == info["fpath"]:
                    q = root_new + p[len(info["fpath"]):]
                    if q in pkids and pkids[q] != kids and got.get(q, ("", 0))[0] == "new":
                        msgs.append(f"{what}: copy at {'/'.join(q)} has child order {pkids[q]}, origin has {kids}")
    # replace: the newcomer takes the destination's position (when it was not already a sibling)
    if "replaced" in info:
        P = info["P"]
        before = next(k for p, _i, _a, k in pre_dst if p == P)
        after = next(k for p, _i, _a, k in post_dst if p == P)
        was_sibling = (d["src"] is None) and info["fpath"][:-1] == P and not info["copy"]
        if not was_sibling:
            k = before.index(info["replaced"][-1])
            if after.index(info["newroot"][-1]) != k:
                msgs.append(f"{what}: replacement sits at index {after.index(info['newroot'][-1])}, destination was at {k}")
    if d["src"] is not None and post_src != pre_src:
        msgs.append(f"{what}: the source tree of a tree-to-tree copy changed")


def oracle(case):
    msgs = _oracle(case)
    if not msgs:
        here = impl(case)
        if here in ("ValueError", "NotFoundError", "SearchError"):
            # argument validation, a from-path that matches nothing / several nodes: refused whatever the setting of
            # BIGTREE_CONF_ASSERTIONS (a LoopError, by contrast, IS one of the optional checks)
            from props import _twoproc
            off = _twoproc.refusal_differs_off("props.C08:worker_impl", case.data, here, case.line, every=6)
            if off is not None:
                msgs.append(f"with BIGTREE_CONF_ASSERTIONS switched off the call is no longer refused with {here}: {off[:120]}")
    return msgs


def _oracle(case):
    d = case.data
    msgs = []
    froms, tos = d["from"], d["to"]
    multi_out, _s, _d, _i = _run(d, froms, tos)
    if len(froms) != len(tos):
        if multi_out != "ValueError":
            msgs.append(f"lists of different length: outcome {multi_out.split(' ')[0]}, documented ValueError")
        return msgs
    # sequential single-pair calls on one fresh copy, each checked against the documented edit
    src_root, dst_root, ids = _build(d)
    seq_out = "ok"
    for k, (f, t) in enumerate(zip(froms, tos)):
        pre_dst = _snap(ids, dst_root)
        pre_src = _snap(ids, src_root) if src_root is not None else None
        try:
            _call(d, src_root, dst_root, [f], [t])
            o = "ok"
        except Exception as e:  # noqa: BLE001
            o = _cls(e)
        post_dst = _snap(ids, dst_root)
        post_src = _snap(ids, src_root) if src_root is not None else None
        _check_pair(d, pre_dst, pre_src, post_dst, post_src, o, f, t, msgs, f"pair {k}")
        if o != "ok":
            seq_out = o
            break
    if seq_out == "ok":
        seq_out = "ok " + _canon(ids, dst_root) + (" | " + _canon(ids, src_root) if src_root is not None else "")
    # one call with several pairs == the same single-pair calls in sequence
    if len(froms) > 1:
        a_ok, b_ok = multi_out.startswith("ok"), seq_out.startswith("ok")
        if a_ok != b_ok:
            msgs.append(f"multi-pair call {'succeeds' if a_ok else 'fails with ' + multi_out} but the sequential single-pair calls "
                        f"{'succeed' if b_ok else 'fail with ' + seq_out}")
        elif a_ok and multi_out != seq_out:
            msgs.append(f"multi-pair call result differs from sequential single-pair calls: {multi_out} vs {seq_out}")
    return msgs


# ---------------------------------------------------------------- generators
ALPHA = "abcde"


def _paths(spec):
    """[(name path tuple, subspec)] pre-order"""
    out = []
    def go(s, p):
        out.append((p, s))
        for c in s[2]:
            go(c, p + (c[0],))
    go(spec, (spec[0],))
    return out


def _tagged(spec):
    ctr = itertools.count()
    def go(s):
        i = next(ctr)
        return (s[0], {"tag": i}, [go(c) for c in s[2]])
    return go(spec)


def rand_spec(rng, size, alphabet=ALPHA, root=None, attrs=True):
    shape = core.random_shape(rng, size)
    spec = core.label_sibling_unique(shape, rng, alphabet)
    if root is not None:
        spec = (root, spec[1], spec[2])
    if attrs:
        spec = _tagged(spec)
        if rng.random() < 0.2:
            ctr = itertools.count()
            def go(s):
                i = next(ctr)
                a = dict(s[1])
                if i % 3 == 0:
                    a = {"k": rng.choice([None, True, False, "v", 7]), **a}
                if i % 4 == 1:
                    a = {"_hid": rng.choice([0, 5, "h"]), **a}
                return (s[0], dict(sorted(a.items())), [go(c) for c in s[2]])
            spec = go(spec)
    return spec


def pstr(comps, sep, lead=False, trail=False):
    return (sep if lead else "") + sep.join(comps) + (sep if trail else "")


def _flagsets(rng):
    fl = [int(rng.random() < 0.25), int(rng.random() < 0.5), int(rng.random() < 0.35), 0, int(rng.random() < 0.25), int(rng.random() < 0.55)]
    if not fl[MC] and rng.random() < 0.3:
        fl[ML] = 1
    if rng.random() < 0.02:
        fl[MC] = fl[ML] = 1
    return fl


def gen_pairs(rng, d, npairs, interact=True):
    """choose (from, to) strings for case data d (trees and flags set); returns (froms, tos, tags)"""
    fl = d["flags"]
    fn = d["fn"]
    sep = d["sep"]
    t2t = d["src"] is not None
    replace = fn in ("replace", "t2treplace")
    fpaths = _paths(d["src"] if t2t else d["dst"])
    dpaths = _paths(d["dst"])
    dset = {p for p, _ in dpaths}
    froms, tos, tags = [], [], set()
    prev = None  # (to comps, moved subspec) of the previous pair
    for _ in range(npairs):
        # ---- from
        r = rng.random()
        missing = False
        if prev is not None and interact and rng.random() < 0.45 and not t2t:
            tcomps, sub = prev
            kids = [c[0] for c in sub[2]]
            if kids and rng.random() < 0.6:
                fcomps = tcomps + (rng.choice(kids),)
            else:
                fcomps = tcomps
            fsub = None
            tags.add("interacting")
        elif r < 0.07 or len(fpaths) == 1:
            base = rng.choice(fpaths)[0]
            fcomps = base + (rng.choice("xyz"),)
            fsub = None
            missing = True
            tags.add("from-missing")
        elif r < 0.10:
            fcomps, fsub = fpaths[0]
            tags.add("from-root")
        else:
            fcomps, fsub = rng.choice(fpaths[1:])
        fname = fcomps[-1]
        partial = (not fl[FP]) and rng.random() < 0.55
        if partial:
            k = rng.randint(1, max(1, len(fcomps) - 1))
            fstr = pstr(fcomps[-k:], sep, lead=rng.random() < 0.5, trail=rng.random() < 0.04)
            tags.add("partial")
        else:
            fstr = pstr(fcomps, sep, lead=rng.random() < 0.5, trail=rng.random() < 0.04)
            tags.add("full")
        # ---- to
        def inside(tc):
            return (not t2t) and tc[: len(fcomps)] == fcomps and len(tc) > len(fcomps)
        tstr = None
        tcomps = None
        if replace:
            cands = [p for p, _ in dpaths if not inside(p)]
            tcomps = rng.choice(cands) if cands else dpaths[0][0]
            if rng.random() < 0.08:
                tcomps = tcomps + ("q",)
                tags.add("dest-missing")
        else:
            r = rng.random()
            if r < 0.07 and not fl[MC] and not fl[ML]:
                tstr = rng.choice([None, None, ""])
                tags.add("delete")
            elif r < 0.13 and not t2t:
                tcomps = fcomps
                tags.add("same-node")
            else:
                exist = [p for p, _ in dpaths if p[-1] == fname and p != fcomps and len(p) > 1 and not inside(p)]
                if exist and r < 0.55:
                    tcomps = rng.choice(exist)
                    tags.add("dest-exists")
                else:
                    par = [p for p, _ in dpaths if not inside(p + (fname,)) and not (not t2t and p[: len(fcomps)] == fcomps)]
                    P = rng.choice(par) if par else dpaths[0][0]
                    if rng.random() < 0.3:
                        P = P + tuple(rng.choice("xyz") for _ in range(rng.randint(1, 2)))
                        tags.add("dest-new-intermediate")
                    tcomps = P + (fname,)
                    if tcomps in dset:
                        tags.add("dest-exists")
        if tcomps is not None:
            tstr = pstr(tcomps, sep, lead=rng.random() < 0.5, trail=rng.random() < 0.04)
        froms.append(fstr)
        tos.append(tstr)
        prev = (tcomps, fsub) if (tcomps is not None and fsub is not None and not missing) else None
    return froms, tos, tags


def _malform(rng, d):
    """turn a generated case into a malformed one; returns tag"""
    kind = rng.choice(["len", "name", "toroot", "fromroot", "copydel", "bothmerge", "missing"])
    fl = d["flags"]
    sep = d["sep"]
    if kind == "len":
        if rng.random() < 0.5 and d["to"]:
            d["to"] = d["to"][:-1]
        else:
            d["from"] = d["from"] + [d["from"][-1]] if d["from"] else ["a"]
    elif kind == "name" and d["to"] and d["to"][-1]:
        d["to"][-1] = d["to"][-1].rstrip(sep) + "q"
    elif kind == "toroot" and d["to"] and d["to"][-1]:
        d["to"][-1] = "zz" + sep + d["to"][-1].lstrip(sep)
    elif kind == "fromroot":
        fl[FP] = 1
        d["from"][-1] = "zz" + sep + d["from"][-1].lstrip(sep)
    elif kind == "copydel":
        if d["to"]:
            d["to"][-1] = rng.choice([None, ""])
            if d["fn"] in ("shift",):
                d["fn"] = "copy"
            fl[MC] = fl[ML] = 0
    elif kind == "bothmerge":
        fl[MC] = fl[ML] = 1
    else:
        d["from"][-1] = d["from"][-1].rstrip(sep) + "qq"
    return "malformed-" + kind


def _spec_snap(spec, first):
    ctr = itertools.count(first)
    out = []
    def go(t, p):
        out.append((p, str(next(ctr)), dict(t[1]), [c[0] for c in t[2]]))
        for c in t[2]:
            go(c, p + (c[0],))
    go(spec, (spec[0],))
    return out


def _sanitize(d):
    """follow the pair list on path sets (no bigtree involved): None when some pair that would be executed lies in an
    excluded combination (DESIGN §5); the list is cut after a pair whose outcome the walk cannot follow"""
    if len(d["from"]) != len(d["to"]):
        return d
    n_src = core.spec_size(d["src"]) if d["src"] is not None else 0
    pre_src = _spec_snap(d["src"], 0) if d["src"] is not None else None
    snap = _spec_snap(d["dst"], n_src)
    root = (d["dst"][0],)
    for k, (f, t) in enumerate(zip(d["from"], d["to"])):
        try:
            exp = _expect_pair(d, snap, pre_src, f, t, walk=True)
        except _Abstain as e:
            if e.excluded:
                return None
            d["from"], d["to"] = d["from"][: k + 1], d["to"][: k + 1]
            return d
        if exp[0] == "rej":
            return d
        cur = exp[1]
        kids = {}
        for p in cur:
            if len(p) > 1:
                kids.setdefault(p[:-1], []).append(p[-1])
        snap = [(root, cur[root][0], cur[root][1], kids.get(root, []))] + \
               [(p, v[0], v[1], kids.get(p, [])) for p, v in cur.items() if p != root]
    return d


def random_case(rng, big=False):
    while True:
        c = _random_case(rng, big)
        if c is not None:
            return c


def _random_case(rng, big=False):
    fn = rng.choice(["shift", "shift", "shift", "copy", "copy", "replace", "t2t", "t2t", "t2treplace"])
    t2t = fn in ("t2t", "t2treplace")
    size = rng.randint(2, 14) if not big else rng.randint(12, 40)
    alphabet = ALPHA if rng.random() < 0.8 else "abcdefgh"
    dst = rand_spec(rng, size, alphabet)
    src = None
    if t2t:
        src = rand_spec(rng, rng.randint(2, 12), alphabet, root=(dst[0] if rng.random() < 0.6 else rng.choice("rst")))
    fl = _flagsets(rng)
    if fn in ("replace", "t2treplace"):
        fl[OV] = fl[MC] = fl[ML] = 0
    sep = rng.choice(SEPS)
    d = {"fn": fn, "dst": dst, "src": src, "dsep": rng.choice(SEPS), "ssep": rng.choice(SEPS), "sep": sep, "flags": fl,
         "from": [], "to": []}
    npairs = rng.choice([1, 1, 2, 2, 3])
    froms, tos, tags = gen_pairs(rng, d, npairs)
    d["from"], d["to"] = froms, tos
    tags |= {fn, "pairs=%d" % npairs, "sep=" + ("/" if sep == "/" else "other")}
    if rng.random() < 0.12:
        tags.add(_malform(rng, d))
    if _sanitize(d) is None:
        return None
    tags = {x for x in tags if not x.startswith("pairs=")} | {"pairs=%d" % len(d["from"])}
    for k, nm in enumerate(FLAGS):
        if d["flags"][k]:
            tags.add(nm)
    return mk_case(d, sorted(tags))


def wide_case(rng):
    """from-node with 5..8 children / many leaves, merge flags on"""
    nk = rng.randint(5, 8)
    kids = []
    for k in range(nk):
        nm = "k%d" % k
        gk = [("g%d" % j, {}, []) for j in range(rng.randint(0, 2))]
        kids.append((nm, {}, gk))
    fnode = ("m", {}, kids)
    other = ("m", {}, [("k1", {}, []), ("z", {}, [])]) if rng.random() < 0.5 else ("o", {}, [("w", {}, [])])
    dst = _tagged(("r", {}, [("p", {}, [fnode]), ("q", {}, [other]), ("s", {}, [])]))
    fl = _flagsets(rng)
    fl[MC] = int(rng.random() < 0.6)
    fl[ML] = 0 if fl[MC] else int(rng.random() < 0.8)
    fl[FP] = int(rng.random() < 0.5)
    fn = rng.choice(["shift", "copy"])
    sep = "/"
    to = rng.choice([("r", "q", "m"), ("r", "s", "m"), ("r", "s", "x", "m"), ("r", "p", "m")])
    d = {"fn": fn, "dst": dst, "src": None, "dsep": "/", "ssep": "/", "sep": sep, "flags": fl,
         "from": [pstr(("r", "p", "m"), sep)], "to": [pstr(to, sep)]}
    tags = {fn, "wide>=5", "pairs=1"} | {FLAGS[k] for k in range(6) if fl[k]}
    return mk_case(d, sorted(tags))


def sibling_replace_case(rng):
    """shift_and_replace_nodes where from-node and replaced node are children of the same parent, with at least
    one sibling on each side of the replaced node; the from-node is before or after it"""
    n = rng.randint(4, 7)
    names = rng.sample("abcdefgh", n)
    kids = [(nm, {}, [("g", {}, [])] if rng.random() < 0.3 else []) for nm in names]
    di = rng.randint(1, n - 2)
    fi = rng.choice([i for i in range(n) if i != di])
    top = rng.random() < 0.5
    dst = _tagged(("r", {}, kids) if top else ("r", {}, [("p", {}, kids), ("o", {}, [])]))
    base = ("r",) if top else ("r", "p")
    fl = [0, 0, 0, 0, int(rng.random() < 0.2), int(rng.random() < 0.6)]
    d = {"fn": "replace", "dst": dst, "src": None, "dsep": "/", "ssep": "/", "sep": "/", "flags": fl,
         "from": [pstr(base + (names[fi],), "/")], "to": [pstr(base + (names[di],), "/")]}
    return mk_case(d, ("replace", "same-parent", "from-later" if fi > di else "from-earlier", "pairs=1"))


def stale_parent_case(rng):
    """three (or four) pairs in ONE call where a later pair's destination parent P was created (or already used) by an
    earlier pair and has meanwhile been moved, deleted, overridden or merged away by an intermediate pair, so it has to
    be looked up / created afresh: X -> P/x ; P -> Q/p (or deleted) ; Y -> P/y"""
    for _ in range(50):
        fn = rng.choice(["shift", "shift", "shift", "copy"])
        dst = rand_spec(rng, rng.randint(5, 12), "abcdefgh")
        paths = [p for p, _ in _paths(dst)]
        if len(paths) < 5:
            continue
        def inside(a, b):   # a inside-or-equal b
            return a[: len(b)] == b
        A = rng.choice(paths)
        fresh = rng.random() < 0.65
        if fresh:
            P = A + (rng.choice("xyz"),)
        else:
            cands = [p for p in paths if len(p) > 1]
            P = rng.choice(cands)
        others = [p for p in paths if len(p) > 1 and not inside(p, P) and not inside(P, p)]
        if len(others) < 2:
            continue
        X = rng.choice(others)
        ys = [p for p in others if not inside(p, X) and not inside(X, p)]
        if not ys:
            continue
        Y = rng.choice(ys)
        qs = [p for p in paths if not inside(p, P) and not inside(p, X) and not inside(p, Y) and p != P[:-1]]
        fl = [0, 0, 0, 0, 0, 1] if rng.random() < 0.6 else _flagsets(rng)
        fl[FP] = 1 if rng.random() < 0.7 else fl[FP]
        if qs and (rng.random() < 0.75 or fn == "copy" or fl[MC] or fl[ML]):
            Q = rng.choice(qs)
            if rng.random() < 0.3:
                Q = Q + (rng.choice("uvw"),)
            mid_to = Q + (P[-1],)
            kind = "moved"
        else:
            mid_to = None
            kind = "deleted"
        sep = rng.choice(SEPS)
        dsep = rng.choice(SEPS)
        froms = [X, P, Y]
        tos = [P + (X[-1],), mid_to, P + (Y[-1],)]
        if rng.random() < 0.3:      # a fourth pair into the place P went to
            zs = [p for p in others if p not in (X, Y) and not inside(p, X) and not inside(p, Y) and not inside(X, p) and not inside(Y, p)]
            if zs and mid_to is not None:
                Z = rng.choice(zs)
                froms.append(Z)
                tos.append(mid_to + (Z[-1],))
        d = {"fn": fn, "dst": dst, "src": None, "dsep": dsep, "ssep": dsep, "sep": sep, "flags": fl,
             "from": [pstr(f, sep, lead=rng.random() < 0.3) if fl[FP] or rng.random() < 0.5 else pstr(f[-min(len(f), 2):], sep) for f in froms],
             "to": [None if t is None else pstr(t, sep, lead=rng.random() < 0.3) for t in tos]}
        if _sanitize(d) is None or len(d["from"]) < 3:
            continue
        tags = {fn, "stale-parent", "parent-" + kind, "parent-fresh" if fresh else "parent-existing", "pairs=%d" % len(d["from"])}
        tags |= {FLAGS[k] for k in range(6) if fl[k]}
        return mk_case(d, sorted(tags))
    return random_case(rng)


def corpus():
    cases = []
    # D4 witness: overriding + merge_children, first destination exists -> the pre-fix code stopped merging
    dst = _tagged(("r", {}, [("a", {}, [("x", {}, [])]),
                             ("b", {}, [("a", {}, [("y", {}, [])])]),
                             ("c", {}, [("a", {}, [("z", {}, []), ("w", {}, [])])])]))
    for fn in ("shift", "copy"):
        d = {"fn": fn, "dst": dst, "src": None, "dsep": "/", "ssep": "/", "sep": "/", "flags": [0, 1, 1, 0, 0, 1],
             "from": ["r/b/a", "r/c/a"], "to": ["r/a", "r/n/a"]}
        cases.append(mk_case(d, ("corpus", "D4", fn, "pairs=2")))
    # "merges only the first three children": from-node with 6 children, merge_children, to existing / missing
    kids = [("k%d" % k, {}, [("g", {}, [])] if k % 2 else []) for k in range(6)]
    dst2 = _tagged(("r", {}, [("p", {}, [("m", {}, kids)]), ("q", {}, [("m", {}, [("u", {}, [])])])]))
    for fn in ("shift", "copy"):
        for ov in (0, 1):
            for to in ("r/q/m", "r/q/x/m"):
                for mcml in ((1, 0), (0, 1)):
                    d = {"fn": fn, "dst": dst2, "src": None, "dsep": "/", "ssep": "/", "sep": "/",
                         "flags": [0, ov, mcml[0], mcml[1], 0, 1], "from": ["r/p/m"], "to": [to]}
                    cases.append(mk_case(d, ("corpus", "wide>=5", fn, "pairs=1")))
    # replace: earlier sibling, later sibling, nested
    dst3 = _tagged(("a", {}, [("x", {}, []), ("D", {}, [("q", {}, [])]), ("y", {}, [("q", {}, [])]), ("F", {}, []), ("z", {}, [])]))
    for f, t in (("a/F", "a/D"), ("a/x", "a/y"), ("a/y/q", "a/D"), ("a/D/q", "a/D"), ("a/y", "a/y/q")):
        d = {"fn": "replace", "dst": dst3, "src": None, "dsep": "/", "ssep": "/", "sep": "/", "flags": [0, 0, 0, 0, 0, 1],
             "from": [f], "to": [t]}
        cases.append(mk_case(d, ("corpus", "replace", "pairs=1")))
    # mid-component suffix match of a partial from-path
    dst4 = _tagged(("a", {}, [("xb", {}, [("k", {}, [])]), ("c", {}, [])]))
    d = {"fn": "shift", "dst": dst4, "src": None, "dsep": "/", "ssep": "/", "sep": "/", "flags": [0, 0, 0, 0, 0, 0],
         "from": ["b"], "to": ["a/c/b"]}
    cases.append(mk_case(d, ("corpus", "midcomponent", "shift", "pairs=1")))
    # a parent P with 130 children (beyond any 50 / 64 / 100 / 128 switch to a name table) in ONE call of four or five pairs:
    # an intermediate is created under P, a child leaves P, another arrives (the count is what it was), then a missing
    # intermediate with the DEPARTED child's name has to be created under P; and the mirror image with the arrived child
    wide = [("c%03d" % k, {}, [("g", {}, [])] if k == 5 else []) for k in range(130)]
    dst5 = _tagged(("r", {}, [("P", {}, wide), ("Q", {}, []), ("a", {}, []), ("y", {}, []), ("z", {}, []), ("w", {}, [])]))
    for fn in ("shift", "copy"):
        for variant in (0, 1):
            fr = ["r/a", "r/P/c005", "r/y", "r/z"] + (["r/w"] if variant else [])
            to = ["r/P/n1/a", "r/Q/c005", "r/P/y", "r/P/c005/z"] + (["r/P/y/w"] if variant else [])
            if fn == "copy":      # a copy leaves its origin: make room by shifting is not possible, use fresh names instead
                fr = ["r/a", "r/y", "r/z"]
                to = ["r/P/n1/a", "r/P/n1/y", "r/P/n%d/z" % (1 + variant)]
            d = {"fn": fn, "dst": dst5, "src": None, "dsep": "/", "ssep": "/", "sep": "/", "flags": [0, 0, 0, 0, 0, 1],
                 "from": fr, "to": to}
            cases.append(mk_case(d, ("corpus", "wide>=100", fn, "pairs=%d" % len(fr))))
    return cases


def _canon_label(shape):
    """child k of every node is called chr(ord('a')+k): paths repeat across branches"""
    def go(s, nm):
        return (nm, {}, [go(c, "abcdefgh"[k]) for k, c in enumerate(s)])
    return _tagged(go(shape, "a"))


def exhaustive(nmax):
    for shape in core.all_shapes_upto(nmax):
        if core.shape_size(shape) < 2:
            continue
        spec = _canon_label(shape)
        paths = _paths(spec)
        for fcomps, _fs in paths[1:]:
            fname = fcomps[-1]
            tos = []
            for p, _ in paths:
                for P in (p, p + ("x",)):
                    tc = P + (fname,)
                    if tc[: len(fcomps)] == fcomps and len(tc) > len(fcomps):
                        continue   # destination strictly inside the addressed subtree
                    tos.append(tc)
            for fn in ("shift", "copy"):
                for bits in range(64):
                    fl = [(bits >> k) & 1 for k in range(6)]
                    cands = list(tos)
                    if not fl[MC] and not fl[ML] and fn == "shift":
                        cands.append(None)
                    if fl[MC] and fl[ML]:
                        cands = cands[:1]   # refused (ValueError) before any path is looked at
                    for tc in cands:
                        d = {"fn": fn, "dst": spec, "src": None, "dsep": "/", "ssep": "/", "sep": "/", "flags": fl,
                             "from": [pstr(fcomps, "/")], "to": [None if tc is None else pstr(tc, "/")]}
                        yield mk_case(d, ("exhaustive", fn, "pairs=1"))


def gen(rng: random.Random, tier: str):
    cases = list(corpus())
    cases += list(exhaustive(4 if tier == "quick" else 5))
    n_rand = 4000 if tier == "quick" else 40000
    for _ in range(n_rand):
        cases.append(random_case(rng))
    for _ in range(n_rand // 20):
        cases.append(random_case(rng, big=True))
    for _ in range(300 if tier == "quick" else 3000):
        cases.append(wide_case(rng))
    for _ in range(200 if tier == "quick" else 2000):
        cases.append(sibling_replace_case(rng))
    for _ in range(400 if tier == "quick" else 4000):
        cases.append(stale_parent_case(rng))
    return cases


def nontrivial(case):
    d = case.data
    if core.spec_size(d["dst"]) < 3 or not d["from"]:
        return False
    return "from-missing" not in case.tags and "from-root" not in case.tags


# ---------------------------------------------------------------- shrinking
def shrink(case):
    d = case.data
    # fewer pairs
    if len(d["from"]) > 1 and len(d["from"]) == len(d["to"]):
        for k in range(len(d["from"])):
            nd = dict(d, **{"from": d["from"][:k] + d["from"][k + 1:], "to": d["to"][:k] + d["to"][k + 1:]})
            yield Case(_line(nd), nd, case.tags)
    # fewer flags
    for k in range(6):
        if d["flags"][k]:
            nd = dict(d, flags=d["flags"][:k] + [0] + d["flags"][k + 1:])
            yield Case(_line(nd), nd, case.tags)
    # plain separators
    if (d["sep"], d["dsep"], d["ssep"]) != ("/", "/", "/"):
        rep = lambda s: None if s is None else s.replace(d["sep"], "/")
        nd = dict(d, sep="/", dsep="/", ssep="/", **{"from": [rep(s) for s in d["from"]], "to": [rep(s) for s in d["to"]]})
        yield Case(_line(nd), nd, case.tags)
    # remove one leaf of a tree
    for key in ("dst", "src"):
        spec = d[key]
        if spec is None:
            continue
        nodes = core.spec_nodes(spec)
        for idx in range(len(nodes) - 1, 0, -1):
            addr, s = nodes[idx]
            if s[2]:
                continue
            def remove(t, a):
                if len(a) == 1:
                    return (t[0], t[1], list(t[2][:a[0]]) + list(t[2][a[0] + 1:]))
                return (t[0], t[1], [remove(c, a[1:]) if k == a[0] else c for k, c in enumerate(t[2])])
            nd = dict(d, **{key: remove(spec, addr)})
            yield Case(_line(nd), nd, case.tags)


def replay_known(entry) -> bool:
    """K12: copy into the copied node's own subtree through a missing intermediate"""
    if entry.get("witness", {}).get("clause") != "copy_into_own_subtree_new_intermediate":
        return False
    import bigtree
    r = bigtree.Node("a"); b = bigtree.Node("b", parent=r); bigtree.Node("d", parent=b); bigtree.Node("c", parent=r)
    try:
        bigtree.copy_nodes(r, ["a/b"], ["a/b/n/b"])
    except Exception:
        return False
    cp = bigtree.find_full_path(r, "a/b/n/b")
    return cp is not None and sorted(c.node_name for c in cp.children) != ["d"]


NOT_READY = False
LEVEL_TEXT = ("Proof. Lean 4 theorems (C08.*) about a hand-written executable model of copy_or_shift_logic / replace_logic "
              "(identity-carrying rose trees, node references = name paths, fresh ids for copies), for ALL trees with unique "
              "sibling names, all path names free of the separator, every fresh-id counter: (1) pairs_fold / pairs_fold_ok - one "
              "call with a pair list = the sequential single-pair calls (exactly, for lists that pass the up-front validation; on the "
              "success part unconditionally), for every flag combination; the pre-fix loop (D4) is refuted by a kernel-checked "
              "counter-example; (2) single pair, the result characterised on its pre-order entry list (path, id, attrs), which fixes "
              "path set, identity, attributes and sibling order at once: plain shift (shift_paths, shift_keeps_ids, shift_frame), "
              "delete_children, plain copy (copy_paths, copy_fresh_ids, copy_origin_untouched), tree-to-tree copy (t2t_copy, "
              "source_untouched for every flag combination and pair list), delete (delete_paths), overriding_paths, "
              "merge_children_paths, merge_leaves_paths, replace_keeps_position; the from-path may be a printed full path "
              "(with_full_path) or a partial path / node name matching exactly one node (FromOK.partial, find_path semantics); "
              "(3) frame_all_flags(_step, _mem) - for EVERY flag combination (copy, skippable, overriding, merge_children, "
              "merge_leaves, delete_children, with_full_path), same-tree and tree-to-tree, every tree and every string (no "
              "hypothesis at all): the nodes that lie neither below the from-node (a SHIFT within one tree; a copy leaves its origin alone) nor below the existing destination keep their "
              "identity, path, attributes and relative order (their entry list is a sublist of the result's); "
              "replace_frame_all_flags(_step, _mem) - the same for replace_logic as a sub-multiset (the re-append loop permutes "
              "siblings in between); (4) nothing_invented(_step, _call) - for every flag combination and ANY pair list: every node of "
              "the resulting tree is an object (identity, attributes) that was in the destination tree before, or - shift only - "
              "in the tree the from-nodes were looked up in, or a new object whose identity was drawn from the fresh-id counter "
              "during the call: no attribute of an existing node changes, a copy consists of new objects only (replace_nothing_invented: the same for replace_logic). "
              "Partial in this sense: each single-pair theorem fixes one kind of edit (the other merge/override flags off; merge and "
              "override theorems are for shift onto an existing destination whose subtree is disjoint from the from-subtree; "
              "replace for delete_children=False); the combinations not covered by a theorem (e.g. copy+merge, merge onto a missing "
              "destination, overriding+merge_leaves, multi-character separators) rest on the correspondence check, which covers all "
              "2^6 flag combinations, 1-3 interacting pairs and the five public functions.")
LEVEL_NOTE = ("Trusted: Lean kernel, axioms <= {propext, Quot.sound} (audited each run), the hand-written model's fidelity - tied to "
              "/repo's working tree on every run by differential testing of the five public functions (destination tree with "
              "case-local object numbering, source tree, exception class) incl. an exhaustive small-scope stream; plus a model-free "
              "oracle that applies the documented edit to the path set of the real tree and checks identity, attributes, relative "
              "order, source-tree integrity and multi-pair = sequential. Observation (not demanded by the property text): when "
              "the from-node of shift_and_replace_nodes is a LATER sibling of the replaced node it keeps its own place instead of "
              "taking the replaced node's (C08.replace_later_sibling_observation)."
    " Known finding K12 (a copy into the copied node's own subtree through a missing intermediate contains that intermediate) lies in the excluded 'destination inside the addressed subtree' corner and is replayed separately on every run.")
TECHNIQUE = ("Lean 4 proof (entry-list filter lemmas for modify/remove/append/grow/relabel on name-addressed rose trees; fold law for the "
             "pair loop) + correspondence check against shift_nodes / copy_nodes / shift_and_replace_nodes / the tree-to-tree variants")
RULE = RULE + ' Fifth session: a parent with 130 children in multi-pair calls (count-preserving exchange of children, then a missing intermediate named like the departed child); theorems find_full_path_printed_multi / comps_printed_multi (separators of any length).'
