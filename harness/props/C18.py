"""C18 — text and graph renderings encode the tree faithfully.

Tie: yield_tree / print_tree / hyield_tree / hprint_tree (exact text), tree_to_dot through real pydot
(vertex multiset with labels, edge multiset), tree_to_mermaid (flow lines), str_to_tree (direct and
through print -> parse), plus a *test* of the Lean horizontal decoder on the model's own output.
Oracle: model-free decoding of the real output with plain Python."""
from __future__ import annotations
import io, itertools, random, re, zlib
import core
from core import hx
from runner import Case
from props import _d_hist as H

THEOREMS = [
    "C18.vertical_lines", "C18.vertical_preorder", "C18.vertical_indent",
    "C18.print_roundtrip", "C18.print_roundtrip_text", "C18.print_roundtrip_noprefix", "C18.builtin_styles_ok",
    "C18.mermaid_ids_injective", "C18.mermaid_ids_nodup", "C18.mermaid_edges_exact", "C18.mermaid_vertices",
    "C18.mermaid_single_no_vertex",
    "C18.dot_vertices_labels", "C18.dot_edges_exact", "C18.dot_ids_injective_partial", "C18.dot_ids_not_injective",
    "C18.h_places_all_nodes", "C18.h_bands", "C18.h_leaf_order", "C18.h_rows_in_range", "C18.h_parent_in_span", "C18.h_gap_assert", "C18.h_decodable", "C18.h_injective",
    "C18.builtin_hstyles_ok", "C18.h_ascii_not_injective",
]
PROOF_IMPORTS = ["BigtreeProofs.Properties.C18"]

RULE = ("ops yield/print/hyield(+hprint)/dot/mermaid/s2t/rt/hdec over: all ordered trees up to N nodes, seeded random trees "
        "(<=40 nodes, depth<=10, fan-out<=8; bushy/path/caterpillar/deep-branch shapes), binary trees with empty slots, "
        "names distinct / repeated across branches / of mixed length / hostile (blanks, glyphs, digits), every built-in style "
        "(by key, as list, as style object), custom styles, max_depth, node_name_or_path, start node != root, "
        "intermediate_node_name on/off, attribute options of print_tree; a separate malformed stream for str_to_tree and "
        "the style arguments; non-trivial = the rendered tree has >= 4 nodes; distinct = distinct protocol lines")
EXHAUSTIVE = {"quick": "all ordered trees with <= 6 nodes x {yield (6 built-in styles), hyield (6 styles x intermediate names on/off), dot, mermaid, print->str_to_tree}",
              "thorough": "all ordered trees with <= 7 nodes x {yield (6 built-in styles), hyield (6 styles x intermediate names on/off), dot, mermaid, print->str_to_tree}; all binary shapes <= 5 nodes"}
MODELLED = [
    "str_to_tree treats tree_prefix_list entries as regular expressions; the model treats them as literal strings and the harness passes re.escape(glyph) to the real function",
    "pydot is an external call: vertices/edges are read back with get_nodes()/get_edges(); names containing ':' (pydot port syntax) or '\"' are not generated for dot cases",
    "only the flow lines of the mermaid text are modelled (default shape/arrow); title, styles and class definitions are not part of the property",
    "print(...) is observed through file=io.StringIO()",
    "horizontal decodability is proved for the Lean decoder Render.hdecode (C18.h_decodable); in addition the decoder is run by the driver on the model's own hyieldTree output for every generated tree (op=hdec), and the oracle decodes the REAL text with an independent Python reader",
]
ASSUMPTIONS = [
    "node names contain no line break; decodability claims are for names without leading blank / glyph character and without a connector inside (vertical, nameOk) and for names without white space (horizontal, hnameOk)",
    "sibling names are distinct (Node enforces it)",
    "K2: tree_to_dot ids collide when a name ends in a digit; K3: tree_to_mermaid shows no vertex for a one-node rendering; K4: the built-in horizontal style 'ascii' is ambiguous",
]
LEVEL_TEXT = ("proof (Lean 4) of: vertical layout = structural specification for EVERY style (one line per node in pre-order, "
              "indentation = depth x glyph length, branch/final glyph iff a right sibling exists, stem in column j iff the ancestor at depth j+1 "
              "has a right sibling; from the unclosed_depth book-keeping), str_to_tree(print_tree(t)) = t on the line and on the text level for "
              "every style meeting decidable side conditions (discharged by decide for every entry of the generated PRINT_STYLES table; custom "
              "styles meeting them are covered), mermaid refs injective / flow lines = links with the right labels / every node a labelled vertex "
              "when there are >= 2 nodes (one-node case refuted: K3), dot: one labelled vertex per node, edges = links through the ids, ids pairwise "
              "distinct when no name ends in a digit (unconditional statement refuted: K2), horizontal: hplace lists all nodes, column bands, leaf "
              "order, parent row inside its children's span, the gap assertion never fires; "
              "horizontal decodability (Tier 2): hdecode(hyield_tree(t)) = t for every style meeting hstyleOk (all generated HPRINT_STYLES entries except "
              "the pinned 'ascii' entry, by decide; refuted for 'ascii': K4) and names without white space, hence the horizontal form is injective on Node trees; "
              "PARTIAL: dot ids only conditionally injective (K2), mermaid one-node rendering (K3), ascii horizontal style (K4); "
              "everything is tied to /repo by the correspondence check (exact text / vertex+edge multisets / flow lines)")
LEVEL_NOTE = "dot ids conditional (K2); mermaid single node (K3); ascii hstyle ambiguous (K4); horizontal decode proved for the Lean decoder and tested on real output by the oracle's Python reader" + " K11: ':' in names is read by pydot as a port (not generated for dot cases, replayed separately)."
TECHNIQUE = "Lean 4 model of the renderers + kernel-checked theorems; differential test real bigtree vs compiled model; generated style tables discharged by decide"

BUILTIN = ["ansi", "ascii", "const", "const_bold", "rounded", "double"]
CUSTOM_STYLES = [["| ", "+-", "`-"], [":   ", ":.. ", "'.. "], ["|", "+", "`"], ["│  ", "├─ ", "└─ "], ["ab", "ba", "bb"]]
BAD_STYLES = [["|  ", "+-", "`-"], ["|", "+"], ["|", "+", "`", "x"], ["", "", ""]]
CUSTOM_HSTYLES = [["1", "2", "3", "4", "5", "6", "7"], ["/", "+", "+", "+", "\\", "|", "="], ["┌", "├", "┤", "┼", "└", "│", "─"]]
BAD_HSTYLES = [["/", "+", "+", "+", "\\", "|"], ["//", "+", "+", "+", "\\", "|", "-"], ["/", "+", "+", "+", "\\", "|", ""]]
OBJ_NAMES = {"ansi": "ANSI", "ascii": "ASCII", "const": "Const", "const_bold": "ConstBold", "rounded": "Rounded", "double": "Double"}


# ================================================================ specs
def t_size(s, binary=False):
    if s is None:
        return 0
    if binary:
        return 1 + t_size(s[2], True) + t_size(s[3], True)
    return 1 + sum(t_size(c) for c in s[2])


def b_to_t(s):
    """binary spec -> ordinary spec with the empty slots dropped"""
    return (s[0], s[1], [b_to_t(k) for k in (s[2], s[3]) if k is not None])


def t_pre(s, path="", depth=1, out=None):
    """pre-order list of (path_name, depth, spec)"""
    if out is None:
        out = []
    p = path + "/" + s[0]
    out.append((p, depth, s))
    for c in s[2]:
        t_pre(c, p, depth + 1, out)
    return out


def t_cut(s, md, d=1):
    if md and d == md:
        return (s[0], s[1], [])
    return (s[0], s[1], [t_cut(c, md, d + 1) for c in s[2]])


def rstrip_chars(s, chars):
    return s.rstrip(chars)


def expected_tree(d):
    """the tree the rendering is about: (spec | None when the call must raise)"""
    spec = b_to_t(d["spec"]) if d.get("binary") else d["spec"]
    nodes = t_pre(spec)
    start = d.get("start", 0)
    spath, sdepth, sspec = nodes[start]
    nnp = d.get("nnp", "")
    if nnp:
        sub = t_pre(sspec, spath[: len(spath) - len(sspec[0]) - 1], sdepth)
        key = nnp.rstrip("/")
        hits = [x for x in sub if x[0].endswith(key)]
        if len(hits) != 1:
            return None
        sspec = hits[0][2]
    return t_cut(sspec, d.get("md", 0))


def shape_str(s):
    return "( " + hx(s[0]) + " " + "".join(shape_str(c) + " " for c in s[2]) + ")"


def node_to_spec(n):
    return (n.node_name, {}, [node_to_spec(c) for c in n.children if c is not None])


# ================================================================ protocol lines
def style_tok(st):
    if isinstance(st, str):
        return st
    return "custom:" + ":".join(hx(x) for x in st)


def _tree_part(d):
    if d.get("binary"):
        return "B " + core.enc_btree(d["spec"])
    return "T " + core.enc_tree(d["spec"])


def _line(d):
    op = d["op"]
    if op in ("yield", "print"):
        head = f"op={op} style={style_tok(d['style'])} md={d['md']} start={d['start']} nnp={hx(d['nnp'])}"
        if op == "print" and d.get("attrs"):
            a = d["attrs"]
            mode = "all" if a["mode"] == "all" else ",".join(hx(k) for k in a["keys"])
            head += f" attrs={mode} omit={1 if a.get('omit') else 0} br={hx(a['br'][0])}:{hx(a['br'][1])}"
        return head + " " + _tree_part(d)
    if op in ("hyield", "hdec"):
        return (f"op={op} hstyle={style_tok(d['style'])} inter={1 if d['inter'] else 0} md={d['md']} "
                f"start={d.get('start', 0)} nnp={hx(d.get('nnp', ''))} " + _tree_part(d))
    if op == "dot":
        return "op=dot " + _tree_part(d)
    if op == "mermaid":
        return f"op=mermaid md={d['md']} start={d['start']} nnp={hx(d['nnp'])} " + _tree_part(d)
    if op == "s2t":
        p = ":".join(hx(x) for x in d["prefixes"]) if d["prefixes"] else "-"
        return f"op=s2t prefixes={p} text={hx(d['text'])}"
    if op == "rt":
        return f"op=rt style={style_tok(d['style'])} md={d['md']} np={1 if d.get('noprefix') else 0} " + _tree_part(d)
    raise ValueError(op)


def mk(d, tags=()):
    d.setdefault("md", 0); d.setdefault("start", 0); d.setdefault("nnp", "")
    return Case(_line(d), d, tuple(tags) + (d["op"],))


def rehydrate(case):
    return Case(case.line, case.data)


# ================================================================ real side
def _build(d):
    h = d.get("hist")
    if h:
        # the tree reaches d["spec"] through a history on the same objects: built as h["init"], derived properties read
        # and the tree rendered once, then re-parented / re-ordered / slots swapped; the model only sees d["spec"]
        import bigtree
        if d.get("binary"):
            root, objs = core.build_binary_tree(h["init"], cls=H.hooked_bin())
            _fs, order = H.bstruct_final(h["init"], h["edits"])
            apply = H.bapply_real
        else:
            root, objs = core.build_node_tree(h["init"])
            _fs, order = H.final(h["init"], h["edits"])
            apply = H.apply_real
        for n in objs:
            _ = (n.depth, n.max_depth, n.path_name, n.is_leaf)
        _ = list(bigtree.yield_tree(root)), list(bigtree.hyield_tree(root))
        for e in h["edits"]:
            apply(objs, e)
            _ = [n.depth for n in objs[:2]]
        return root, [objs[i] for i in order]
    if d.get("binary"):
        return core.build_binary_tree(d["spec"])
    return core.build_node_tree(d["spec"])


def _as_tuple_spec(t):
    return (t[0], dict(t[1]), [_as_tuple_spec(c) for c in t[2]])


def with_history(rng, case):
    """the same rendering request (from the root, no node_name_or_path) on a history-built tree; None if unsuitable"""
    d = case.data
    if d.get("hist") or d["op"] not in ("yield", "print", "hyield", "dot", "mermaid", "rt") or d.get("start") or d.get("nnp"):
        return None
    init = d["spec"]
    if d.get("binary"):
        if t_size(init, True) < 3:
            return None
        edits = H.random_bstruct_edits(rng, init, rng.randint(1, 3))
        if not edits:
            return None
        fin, _o = H.bstruct_final(init, edits)
    else:
        if t_size(init) < 3:
            return None
        # sibling names must stay distinct where the case needs it: moves only go where no child of that name exists
        edits = H.random_edits(rng, init, rng.randint(1, 3), [], kinds=("move", "move", "reattach", "reorder", "delre"))
        if not edits:
            return None
        fin, _o = H.final(init, edits)
        fin = _as_tuple_spec(fin)
    nd = dict(d, spec=fin, hist={"init": init, "edits": edits})
    return Case(_line(nd), nd, tuple(case.tags) + ("history",))


def _style_arg(d):
    import bigtree
    st, form = d["style"], d.get("sform", "plain")
    hor = d["op"] in ("hyield", "hdec")
    if isinstance(st, str):
        if st in OBJ_NAMES and form == "obj":
            return getattr(bigtree, OBJ_NAMES[st] + ("HPrintStyle" if hor else "PrintStyle"))
        if st in OBJ_NAMES and form == "list":
            from bigtree.utils.constants import ExportConstants
            return list((ExportConstants.HPRINT_STYLES if hor else ExportConstants.PRINT_STYLES)[st])
        return st
    if form == "obj":
        from bigtree.utils.constants import BasePrintStyle, BaseHPrintStyle
        return (BaseHPrintStyle if hor else BasePrintStyle)(*st)
    if form == "kwobj":     # the style object built by KEYWORD (the documented field names), not by position
        from bigtree.utils.constants import BasePrintStyle, BaseHPrintStyle
        if zlib.crc32(repr(st).encode()) % 2:
            # a style object that was made for OTHER icons (one character narrower) and re-used: its fields are
            # assigned afterwards (the classes are plain dataclasses); what counts is what it holds when it is passed
            if hor:
                o = BaseHPrintStyle(*[x[:-1] if len(x) > 1 else x + x for x in st])
                (o.first_child, o.subsequent_child, o.split_branch, o.middle_child, o.last_child, o.stem, o.branch) = st
            else:
                o = BasePrintStyle(*[x[:-1] if len(x) > 1 else x + x for x in st])
                o.stem, o.branch, o.stem_final = st
            return o
        if hor:
            return BaseHPrintStyle(first_child=st[0], subsequent_child=st[1], split_branch=st[2], middle_child=st[3],
                                   last_child=st[4], stem=st[5], branch=st[6])
        return BasePrintStyle(stem=st[0], branch=st[1], stem_final=st[2])
    if form == "tuple":
        return tuple(st)
    return list(st)


def _style_strings(d):
    """(stem, branch, final) of the style in use, read from the real table"""
    from bigtree.utils.constants import ExportConstants
    st = d["style"]
    return tuple(ExportConstants.PRINT_STYLES[st]) if isinstance(st, str) else tuple(st)


def _hstyle_chars(d):
    from bigtree.utils.constants import ExportConstants
    st = d["style"]
    return tuple(ExportConstants.HPRINT_STYLES[st]) if isinstance(st, str) else tuple(st)


def _rows_vertical(d, nodes):
    import bigtree
    return list(bigtree.yield_tree(nodes[d["start"]], node_name_or_path=d["nnp"], max_depth=d["md"], style=_style_arg(d)))


def _print_text(d, nodes):
    import bigtree
    buf = io.StringIO()
    kw = {}
    a = d.get("attrs")
    if a:
        if a["mode"] == "all":
            kw["all_attrs"] = True
        else:
            kw["attr_list"] = list(a["keys"])
            kw["attr_omit_null"] = bool(a.get("omit"))
        kw["attr_bracket"] = list(a["br"])
    bigtree.print_tree(nodes[d["start"]], node_name_or_path=d["nnp"], max_depth=d["md"], style=_style_arg(d), file=buf, **kw)
    return buf.getvalue()


def _hrows(d, nodes):
    import bigtree
    kw = dict(node_name_or_path=d.get("nnp", ""), max_depth=d["md"], intermediate_node_name=d["inter"], style=_style_arg(d))
    start = nodes[d.get("start", 0)]
    rows = bigtree.hyield_tree(start, **kw)
    if d.get("via") == "print":
        buf = io.StringIO()
        bigtree.hprint_tree(start, file=buf, **kw)
        if buf.getvalue() != "\n".join(rows) + "\n":
            return ["hprint-differs-from-hyield"]
    return rows


MERMAID_SHAPES = ["rounded_edge", "stadium", "subroutine", "cylindrical", "circle", "asymmetric", "rhombus", "hexagon",
                  "parallelogram", "parallelogram_alt", "trapezoid", "trapezoid_alt", "double_circle"]
MERMAID_ARROWS = ["normal", "bold", "dotted", "open", "bold_open", "dotted_open", "invisible", "circle", "cross",
                  "double_normal", "double_circle", "double_cross"]


def style_opts(rng, op):
    """presentation options (JSON-able): they restyle vertices / edges and must not change which vertices and edges exist"""
    o = {}
    if op == "dot":
        if rng.random() < 0.4:
            o["directed"] = False
        if rng.random() < 0.4:
            o["rankdir"] = rng.choice(["TB", "BT", "LR", "RL"])
        for k, vals in (("bg_colour", ["gold", "#ffffff"]), ("node_colour", ["red", "gold"]), ("node_shape", ["box", "circle"]),
                        ("edge_colour", ["blue"])):
            if rng.random() < 0.3:
                o[k] = rng.choice(vals)
        o["node_by"] = rng.choice(["", "depth", "leaf", "attr", "all"])
        o["edge_by"] = rng.choice(["", "depth", "attr", "all"])
        if rng.random() < 0.5:
            o["from"] = rng.randrange(1, 40)       # the node handed to tree_to_dot (mod the number of nodes)
    else:
        if rng.random() < 0.3:
            o["rankdir"] = rng.choice(["TB", "BT", "LR", "RL"])
        if rng.random() < 0.3:
            o["line_shape"] = rng.choice(["basis", "linear", "step", "cardinal"])
        if rng.random() < 0.3:
            o["node_colour"] = "yellow"
        if rng.random() < 0.3:
            o["node_border_colour"] = "black"
        if rng.random() < 0.3:
            o["node_border_width"] = rng.choice([2, 0.5])
        if rng.random() < 0.4:
            o["node_shape"] = rng.choice(MERMAID_SHAPES)
        if rng.random() < 0.4:
            o["edge_arrow"] = rng.choice(MERMAID_ARROWS)
        o["shape_by"] = rng.choice(["", "depth", "attr"])
        o["arrow_by"] = rng.choice(["", "depth", "attr"])
        o["style_by"] = rng.choice(["", "leaf", "all", "root", "attr"])
        o["label_by"] = rng.choice(["", "attr"])
        if rng.random() < 0.2:
            o["title"] = "T"
    return o


def _decorate(nodes):
    """presentation attributes on the real nodes (by position in pre-order), read by the *_attr options"""
    for k, n in enumerate(nodes):
        if n is None:
            continue
        if k % 3 == 0:
            n.set_attrs({"m_shape": MERMAID_SHAPES[k % len(MERMAID_SHAPES)], "d_node": {"style": "filled", "fillcolor": "gold"}})
        if k % 3 == 1:
            n.set_attrs({"m_arrow": MERMAID_ARROWS[k % len(MERMAID_ARROWS)], "m_label": "L%d" % k, "d_edge": {"label": "e%d" % k}})
        if k % 4 == 2:
            n.set_attrs({"m_style": "fill:yellow,stroke:black"})


def _dot(nodes, opts=None):
    import bigtree
    o = dict(opts or {})
    kw = {k: o[k] for k in ("directed", "rankdir", "bg_colour", "node_colour", "node_shape", "edge_colour") if k in o}
    nb, eb = o.get("node_by"), o.get("edge_by")
    if nb or eb:
        _decorate(nodes)
    if nb == "attr":
        kw["node_attr"] = "d_node"
    elif nb:
        kw["node_attr"] = lambda n: ({"style": "filled", "fillcolor": "gold"} if (nb == "all" or (nb == "leaf" and n.is_leaf)
                                                                                  or (nb == "depth" and n.depth % 2)) else {})
    if eb == "attr":
        kw["edge_attr"] = "d_edge"
    elif eb:
        kw["edge_attr"] = lambda n: ({"label": "w", "penwidth": 2} if (eb == "all" or n.depth % 2) else {})
    # tree_to_dot may be handed ANY node of the tree: it always draws the whole tree (from the root)
    g = bigtree.tree_to_dot(nodes[o.get("from", 0) % len(nodes)], **kw)
    vs = [(n.get_name(), n.get("label")) for n in g.get_nodes()]
    es = [(e.get_source(), e.get_destination()) for e in g.get_edges()]
    _dot.edge_labels = {(e.get_source(), e.get_destination()): e.get("label") for e in g.get_edges()}
    return vs, es


def _mermaid_lines(d, nodes):
    import bigtree
    kw = {}
    if d["md"]:
        kw["max_depth"] = d["md"]
    if d["nnp"]:
        kw["node_name_or_path"] = d["nnp"]
    o = dict(d.get("sopts") or {})
    for k in ("rankdir", "line_shape", "node_colour", "node_border_colour", "node_border_width", "node_shape", "edge_arrow", "title"):
        if k in o:
            kw[k] = o[k]
    if any(o.get(k) for k in ("shape_by", "arrow_by", "style_by", "label_by")):
        _decorate(nodes)
    if o.get("shape_by") == "attr":
        kw["node_shape_attr"] = "m_shape"
    elif o.get("shape_by"):
        kw["node_shape_attr"] = lambda n: MERMAID_SHAPES[n.depth % len(MERMAID_SHAPES)]
    if o.get("arrow_by") == "attr":
        kw["edge_arrow_attr"] = "m_arrow"
    elif o.get("arrow_by"):
        kw["edge_arrow_attr"] = lambda n: MERMAID_ARROWS[n.depth % len(MERMAID_ARROWS)]
    sb = o.get("style_by")
    if sb == "attr":
        kw["node_attr"] = "m_style"
    elif sb:
        kw["node_attr"] = lambda n: ("fill:yellow" if (sb == "all" or (sb == "leaf" and n.is_leaf) or (sb == "root" and n.is_root)) else "")
    if o.get("label_by"):
        kw["edge_label"] = "m_label"
    text = bigtree.tree_to_mermaid(nodes[d["start"]], **kw)
    body = text.split("\nflowchart " + o.get("rankdir", "TB") + "\n", 1)[1].rsplit("\nclassDef default", 1)[0]
    lines = body.split("\n") if body else []
    return [_plain_flow(ln) for ln in lines] if o else lines


_SH = r'(?:[\(\[\{>/\\]+"(?P<%s>.*)"[\)\]\}/\\]+)'
STYLED_FLOW = re.compile(r'^(?P<a>[0-9-]+)' + (_SH % "al") + r'?(?::::[^ ]+)? (?:-->|==>|-\.->|---|===|-\.-|~~~|--o|--x|<-->|o--o|x--x)'
                         r'(?:\|[^|]*\|)? (?P<b>[0-9][0-9-]*)' + (_SH % "bl") + r'(?::::[^ ]+)?$', re.S)


def _plain_flow(ln):
    """a flow line written with any node shape / arrow / edge label / style class -> the default form id("label") --> id("label")
    (presentation is not part of the claim; what is compared is which vertices and links exist, and their labels)"""
    m = STYLED_FLOW.match(ln)
    if not m:
        return ln
    a = m.group("a") + ('("%s")' % m.group("al") if m.group("al") is not None else "")
    return a + " --> " + m.group("b") + '("%s")' % m.group("bl")


def _s2t(text, prefixes):
    import bigtree
    return bigtree.str_to_tree(text, tree_prefix_list=[re.escape(p) for p in prefixes])


def hexlist(xs):
    xs = list(xs)
    return ",".join(hx(x) for x in xs) if xs else "-"


def impl(case):
    d = case.data
    op = d["op"]
    try:
        if op == "s2t":
            return shape_str(node_to_spec(_s2t(d["text"], d["prefixes"])))
        _root, nodes = _build(d)
        if op == "yield":
            rows = _rows_vertical(d, nodes)
            return ",".join(hx(p) + "/" + hx(f) + "/" + hx(n.node_name) for p, f, n in rows) if rows else "-"
        if op == "print":
            text = _print_text(d, nodes)
            return hexlist(text.split("\n")[:-1])
        if op == "hyield":
            return hexlist(_hrows(d, nodes))
        if op == "hdec":
            return _hexpected_str(d)
        if op == "dot":
            vs, es = _dot(nodes, d.get("sopts"))
            v = sorted(hx(a) + ":" + hx(b) for a, b in vs)
            e = sorted(hx(a) + ">" + hx(b) for a, b in es)
            return "V " + (",".join(v) if v else "-") + " E " + (",".join(e) if e else "-")
        if op == "mermaid":
            return hexlist(_mermaid_lines(d, nodes))
        if op == "rt":
            dd = dict(d, start=0, nnp="", op="print")
            text = _print_text(dd, nodes)
            _stem, branch, final = _style_strings(d)
            if d.get("noprefix"):
                import bigtree
                return shape_str(node_to_spec(bigtree.str_to_tree(text)))
            return shape_str(node_to_spec(_s2t(text, [branch, final])))
    except AssertionError:
        raise
    except Exception:
        return "rej"
    raise ValueError(op)


# ---------------------------------------------------------------- expected decode of the horizontal form
def _hspec(d):
    """slot form: None (hole) | (name, [children incl. None]) after max_depth"""
    md = d["md"]
    if d.get("binary"):
        def go(s, dep):
            if s is None:
                return None
            kids = [None, None] if (md and dep == md) else [go(s[2], dep + 1), go(s[3], dep + 1)]
            return (s[0], kids)
        return go(d["spec"], 1)
    e = expected_tree(d)
    if e is None:
        return "rej"
    def conv(s):
        return (s[0], [conv(c) for c in s[2]])
    return conv(e)


def _hexpected_str(d):
    h = _hspec(d)
    if h == "rej":
        return "rej"
    try:
        _hstyle_ok_args(d)
    except Exception:
        return "rej"
    inter = d["inter"]
    def go(s):
        if s is None:
            return "( x )"
        name, kids = s
        if not any(k is not None for k in kids):
            return "( " + hx(name.rstrip()) + " )"
        return "( " + hx(name if inter else "") + " " + "".join(go(k) + " " for k in kids) + ")"
    return go(h)


def _hstyle_ok_args(d):
    st = d["style"]
    if isinstance(st, str):
        from bigtree.utils.constants import ExportConstants
        st = ExportConstants.HPRINT_STYLES[st]
    if len(st) != 7 or any(len(x) != 1 for x in st):
        raise ValueError("style")


# ================================================================ oracle (model-free)
def _safe_v(name, glyphs):
    """name is decodable from a vertical line: no leading blank / glyph character, no glyph string, no newline"""
    if not name or "\n" in name or name[0].isspace():
        return False
    if any(name[0] in g for g in glyphs):
        return False
    return not any(g and g in name for g in glyphs)


def _safe_h(name, chars):
    return bool(name) and not any(c.isspace() or c in chars for c in name)


def _decode_vertical(lines, stem, branch, final):
    """own reading of the text: indentation blocks, connector glyph, name -> (tree, messages)"""
    L = len(stem)
    gap = " " * L
    msgs = []
    root = (lines[0], {}, [])
    stack = [root]
    flags = []       # per line: (depth, is_branch, stems)
    for ln in lines[1:]:
        k = 0
        stems = []
        while ln[k * L:(k + 1) * L] in (stem, gap) and ln[k * L:(k + 1) * L] not in (branch, final):
            stems.append(ln[k * L:(k + 1) * L] == stem)
            k += 1
        f = ln[k * L:(k + 1) * L]
        if f not in (branch, final):
            return None, [f"line {ln!r}: no connector glyph after {k} indentation blocks"]
        name = ln[(k + 1) * L:]
        depth = k + 1
        if depth > len(stack):
            return None, [f"line {ln!r}: depth jumps from {len(stack) - 1} to {depth}"]
        del stack[depth:]
        node = (name, {}, [])
        stack[-1][2].append(node)
        stack.append(node)
        flags.append((depth, f == branch, stems))
    return root, flags


def _same(a, b):
    return a[0] == b[0] and len(a[2]) == len(b[2]) and all(_same(x, y) for x, y in zip(a[2], b[2]))


def _oracle_vertical(d):
    exp = expected_tree(d)
    _root, nodes = _build(d)
    try:
        if d["op"] == "yield":
            rows = _rows_vertical(d, nodes)
            lines = [p + f + n.node_name for p, f, n in rows]
        else:
            if d.get("attrs"):
                return []
            lines = _print_text(d, nodes).split("\n")[:-1]
            rows = None
    except Exception:
        return [] if (exp is None or not _style_valid(d)) else ["valid rendering request raised"]
    if exp is None:
        return ["rendering of an absent / ambiguous node_name_or_path did not raise"]
    stem, branch, final = _style_strings(d)
    L = len(stem)
    gap = " " * L
    msgs = []
    pre = t_pre(exp)
    if len(lines) != len(pre):
        return [f"{len(lines)} lines for {len(pre)} nodes"]
    # first-principles expectation per node: depth, right sibling, ancestors' right siblings
    def walk(s, depth, has_right, anc, out):
        out.append((s[0], depth, has_right, list(anc)))
        for i, c in enumerate(s[2]):
            walk(c, depth + 1, i + 1 < len(s[2]), (anc + [has_right]) if depth >= 1 else [], out)
    info = []
    walk(exp, 0, False, [], info)
    for i, ((name, depth, has_right, anc), ln) in enumerate(zip(info, lines)):
        if rows is not None:
            p, f, n = rows[i]
            if n.node_name != name:
                msgs.append(f"line {i}: node {n.node_name!r}, pre-order expects {name!r}")
                continue
            if depth == 0:
                if p or f:
                    msgs.append("root line carries a prefix")
                continue
            if len(p) + len(f) != depth * L:
                msgs.append(f"line {i} ({name!r}): indentation {len(p) + len(f)} != depth {depth} x {L}")
            if f != (branch if has_right else final):
                msgs.append(f"line {i} ({name!r}): connector {f!r} but right sibling exists = {has_right}")
            want = "".join(stem if a else gap for a in anc)
            if p != want:
                msgs.append(f"line {i} ({name!r}): stems {p!r}, expected {want!r} (ancestors with right sibling: {anc})")
        else:
            want = ("".join(stem if a else gap for a in anc) + (branch if has_right else final) if depth else "") + name
            if ln != want:
                msgs.append(f"line {i}: {ln!r}, expected {want!r}")
    if msgs:
        return msgs[:5]
    # decode the text back (own reader, and the real str_to_tree) when the names allow it
    distinct = len({stem, branch, final, gap}) == 4 or (len({branch, final}) == 2 and stem not in (branch, final) and gap not in (branch, final))
    if isinstance(d["style"], str) and len(info) > 1 and not (L > 0 and distinct and _regex_safe(stem, branch, final, gap)):
        msgs.append(f"built-in style {d['style']!r}: glyphs {stem!r},{branch!r},{final!r} do not let the text be decoded "
                    "(connector glyphs must differ from each other and from the indentation)")
    if L > 0 and distinct and all(_safe_v(x[0], (stem, branch, final, gap)) for x in info):
        dec, _fl = _decode_vertical(lines, stem, branch, final)
        if dec is None:
            msgs.extend(_fl)
        elif not _same(dec, exp):
            msgs.append(f"text decodes to {shape_plain(dec)}, tree is {shape_plain(exp)}")
        if _regex_safe(stem, branch, final, gap):
            try:
                back = node_to_spec(_s2t("\n".join(lines), [branch, final]))
                if not _same(back, exp):
                    msgs.append(f"str_to_tree(text) = {shape_plain(back)}, tree is {shape_plain(exp)}")
            except Exception as e:
                msgs.append(f"str_to_tree(text) raised {type(e).__name__} for tree {shape_plain(exp)}")
    return msgs[:5]


def _regex_safe(stem, branch, final, gap):
    """the side condition of print_roundtrip: no window over the indentation equals a connector"""
    L = len(stem)
    for X in (stem, gap):
        for Y in (stem, gap, branch, final):
            for o in range(L):
                if X[o:] + Y[:o] in (branch, final):
                    return False
    return branch != final and L > 0


def _style_valid(d):
    st = d["style"]
    if isinstance(st, str):
        return st in BUILTIN
    if d["op"] in ("hyield", "hdec"):
        return len(st) == 7 and all(len(x) == 1 for x in st)
    return len(st) == 3 and len(st[0]) == len(st[1]) == len(st[2])


def shape_plain(s):
    return s[0] + ("(" + ",".join(shape_plain(c) for c in s[2]) + ")" if s[2] else "")


# ---------------------------------------------------------------- horizontal
def _hrow(rows, ch, r, c):
    """read the node row at (r, c): (name, None) for a leaf, (name, k) with the connector column k, or None"""
    br = ch[6]
    row = rows[r]
    if c >= len(row) or row[c] != br:
        return None
    rest = row[c + 1:]
    if rest.startswith(" "):
        body = rest[1:]
        lead = len(body) - len(body.lstrip(" "))
        body2 = body[lead:]
        name = body2.split(" ", 1)[0]
        after = body2[len(name):]
        if not after.strip(" "):
            return (name, None)
        j = c + 2 + lead + len(name)
        while j < len(row) and row[j] == " ":
            j += 1
    elif rest.startswith(br + br):
        name = ""
        j = c + 2
    else:
        return None
    if j >= len(row) or row[j] != br or j + 1 >= len(row):
        return None
    return (name, j + 1)


def _hextents(rows, ch, r, k):
    """candidate (top, bottom, child rows) of the connector run through (r, k)"""
    first_c, subs_c, _split_c, _mid_c, last_c, stem_c, br = ch
    def at(rr, cc):
        return rows[rr][cc] if 0 <= rr < len(rows) and cc < len(rows[rr]) else None
    tops, bots = [], []
    rr = r - 1
    while rr >= 0 and at(rr, k) in (stem_c, subs_c, first_c):
        if at(rr, k) == first_c:
            tops.append(rr)
        if at(rr, k) not in (stem_c, subs_c):
            break
        rr -= 1
    rr = r + 1
    while rr < len(rows) and at(rr, k) in (stem_c, subs_c, last_c):
        if at(rr, k) == last_c:
            bots.append(rr)
        if at(rr, k) not in (stem_c, subs_c):
            break
        rr += 1
    for top in tops:
        for bot in bots:
            if (top + bot) // 2 != r:
                continue
            crow = [x for x in range(top, bot + 1) if at(x, k + 1) == br]
            if len(crow) < 2 or crow[0] != top or crow[-1] != bot:
                continue
            yield top, bot, crow


def _hparse(rows, ch, r, c, out_pos, depth):
    """all readings of the node whose branch glyph is at (r, c): yields (name, kids, positions)"""
    br = ch[6]
    hd = _hrow(rows, ch, r, c)
    if hd is None:
        return
    name, k = hd
    if k is None:
        yield (name, [], [(depth, r, c, True)])
        return
    if rows[r][k] == br:
        for sub in _hparse(rows, ch, r, k + 1, out_pos, depth + 1):
            yield (name, [sub], [(depth, r, c, False)])
        return
    for _top, _bot, crow in _hextents(rows, ch, r, k):
        alts = [list(itertools.islice(_hparse(rows, ch, x, k + 1, out_pos, depth + 1), 8)) for x in crow]
        if any(not a for a in alts):
            continue
        for combo in itertools.islice(itertools.product(*alts), 32):
            yield (name, list(combo), [(depth, r, c, False)])


def _hmatch(rows, ch, r, c, want, depth):
    """is `want` one of the readings of the node at (r, c)?  -> nested (name, kids, positions) or None"""
    br = ch[6]
    hd = _hrow(rows, ch, r, c)
    if hd is None:
        return None
    name, k = hd
    if name != want[0]:
        return None
    if k is None:
        return (name, [], [(depth, r, c, True)]) if not want[1] else None
    if not want[1]:
        return None
    if rows[r][k] == br:
        if len(want[1]) != 1:
            return None
        sub = _hmatch(rows, ch, r, k + 1, want[1][0], depth + 1)
        return None if sub is None else (name, [sub], [(depth, r, c, False)])
    for _top, _bot, crow in _hextents(rows, ch, r, k):
        if len(crow) != len(want[1]):
            continue
        subs = [_hmatch(rows, ch, x, k + 1, w, depth + 1) for x, w in zip(crow, want[1])]
        if all(x is not None for x in subs):
            return (name, subs, [(depth, r, c, False)])
    return None


def _flatten_h(p):
    """reading -> (spec-like (name, kids), positions in pre-order)"""
    name, kids, pos = p
    subs = [_flatten_h(k) for k in kids]
    return (name, [s[0] for s in subs]), pos + [q for s in subs for q in s[1]]


def _h_equal(a, b):
    return a[0] == b[0] and len(a[1]) == len(b[1]) and all(_h_equal(x, y) for x, y in zip(a[1], b[1]))


def _hwant(h, inter):
    if h is None:
        return ("", [])
    name, kids = h
    if not any(k is not None for k in kids):
        return (name.rstrip(), [])
    return (name if inter else "", [_hwant(k, inter) for k in kids])


def _h_render_spec(hs, d):
    """render a candidate reading with the REAL code (only for hole-free trees with names)"""
    import bigtree
    def go(s, parent):
        n = bigtree.Node(s[0] or "?")
        if parent is not None:
            n.parent = parent
        for k in s[1]:
            go(k, n)
        return n
    root = go(hs, None)
    return bigtree.hyield_tree(root, intermediate_node_name=d["inter"], style=_style_arg(d))


def _oracle_horizontal(d):
    h = _hspec(d)
    _root, nodes = _build(d)
    try:
        rows = _hrows(d, nodes)
    except Exception:
        return [] if (h == "rej" or not _style_valid(d)) else ["valid horizontal rendering request raised"]
    if h == "rej":
        return ["horizontal rendering of an absent / ambiguous node_name_or_path did not raise"]
    if rows == ["hprint-differs-from-hyield"]:
        return ["hprint_tree text differs from hyield_tree rows"]
    ch = _hstyle_chars(d)
    names = []
    def coll(s):
        if s is not None:
            names.append(s[0]); [coll(k) for k in s[1]]
    coll(h)
    if not all(_safe_h(n, ch) for n in names) or ch[6] == " " or len(set(ch[5:])) < 2:
        return []
    want = _hwant(h, d["inter"])
    roots = [r for r in range(len(rows)) if rows[r][:1] == ch[6]]
    if len(roots) != 1:
        return [f"{len(roots)} rows start with the branch glyph in column 0"]
    good = _hmatch(rows, ch, roots[0], 0, want, 1)
    msgs = []
    if good is None:
        return [f"horizontal text does not decode to the tree: rows={rows!r}"]
    # positions: bands, leaf order, parent inside the span of its children
    pos = _flatten_h(good)[1]
    by_depth = {}
    for dep, r, c, leaf in pos:
        by_depth.setdefault(dep, set()).add(c)
    for dep, cols in by_depth.items():
        if len(cols) != 1:
            msgs.append(f"nodes of depth {dep} start in columns {sorted(cols)}")
    leaf_rows = [r for dep, r, c, leaf in pos if leaf]
    if leaf_rows != sorted(leaf_rows) or len(set(leaf_rows)) != len(leaf_rows):
        msgs.append(f"leaf rows in pre-order are {leaf_rows}")
    def span(p):
        name, kids, ps = p
        r = ps[0][1]
        if kids:
            rs = [span(k) for k in kids]
            if not (rs[0] <= r <= rs[-1]):
                msgs.append(f"node {name!r} on row {r} outside its children's rows {rs}")
        return r
    span(good)
    readings = [_flatten_h(p) for p in itertools.islice(_hparse(rows, ch, roots[0], 0, None, 1), 100)]
    # ambiguity: another tree with the same text (checked by rendering the other reading with the real code)
    others = []
    for r in readings:
        if not _h_equal(r[0], want) and not any(_h_equal(r[0], o) for o in others):
            others.append(r[0])
    holes = d.get("binary")
    for o in others[:5]:
        if holes or not d["inter"]:
            break
        try:
            if _h_render_spec(o, d) == rows:
                tag = "hprint_decodable_ascii" if d["style"] == "ascii" else "hprint_ambiguous"
                msgs.append(f"{tag}: a different tree renders to the same rows: {o!r} vs {want!r}")
                break
        except Exception:
            continue
    return msgs[:5]


# ---------------------------------------------------------------- dot / mermaid
def _scheme_ids(spec):
    """the pinned id scheme: label + str(rank of the path among the paths with that label, pre-order)"""
    seen = {}
    out = []
    for path, _dep, s in t_pre(spec):
        lst = seen.setdefault(s[0], [])
        if path not in lst:
            lst.append(path)
        out.append(s[0] + str(lst.index(path)))
    return out


def _oracle_dot(d):
    spec = b_to_t(d["spec"]) if d.get("binary") else d["spec"]
    _root, nodes = _build(d)
    vs, es = _dot(nodes, d.get("sopts"))
    pre = t_pre(spec)
    msgs = []
    ids = [v[0] for v in vs]
    if len(vs) != len(pre):
        msgs.append(f"{len(vs)} vertices for {len(pre)} nodes")
    if len(set(ids)) != len(ids):
        dup = sorted({i for i in ids if ids.count(i) > 1})
        msgs.append(f"dot_vertex_ids_unique: vertex ids {dup} are used by more than one node")
        return msgs
    if sorted(v[1] for v in vs) != sorted(s[0] for _p, _d, s in pre):
        msgs.append("vertex labels are not the node names")
    if len(es) != len(pre) - 1 or len(set(es)) != len(es):
        msgs.append(f"{len(es)} edges ({len(set(es))} distinct) for {len(pre) - 1} links")
    if msgs:
        return msgs
    label = dict(vs)
    kids = {}
    indeg = {i: 0 for i in ids}
    for a, b in es:
        if a not in label or b not in label:
            return [f"edge ({a},{b}) names an unknown vertex"]
        kids.setdefault(a, []).append(b)
        indeg[b] += 1
    roots = [i for i in ids if indeg[i] == 0]
    if len(roots) != 1:
        return [f"{len(roots)} vertices without incoming edge"]
    def match(v, s):
        if label[v] != s[0]:
            return f"vertex {v} labelled {label[v]!r} where node {s[0]!r} is"
        ks = kids.get(v, [])
        if sorted(label[k] for k in ks) != sorted(c[0] for c in s[2]):
            return f"children of {v}: {[label[k] for k in ks]} vs {[c[0] for c in s[2]]}"
        byl = {label[k]: k for k in ks}
        for c in s[2]:
            m = match(byl[c[0]], c)
            if m:
                return m
        return None
    m = match(roots[0], spec)
    if m:
        return [m]
    # what a callable edge_attr returns for a node belongs to the edge INTO that node and to no other edge
    eb = (d.get("sopts") or {}).get("edge_by")
    if eb in ("depth", "all"):
        depth = {roots[0]: 1}
        todo = [roots[0]]
        while todo:
            v = todo.pop()
            for k in kids.get(v, []):
                depth[k] = depth[v] + 1
                todo.append(k)
        for (a, b), lab in getattr(_dot, "edge_labels", {}).items():
            want = "w" if (eb == "all" or depth[b] % 2) else None
            if (lab.strip('"') if isinstance(lab, str) else lab) != want:
                return [f"edge ({a},{b}) into a node of depth {depth[b]} carries label {lab!r}, the edge_attr callable returned {want!r} for that node"]
    return []


FLOW = re.compile(r'^([0-9-]+)(?:\("(.*?)"\))? --> ([0-9-]+)\("(.*)"\)$', re.S)


def _oracle_mermaid(d):
    exp = expected_tree(d)
    _root, nodes = _build(d)
    try:
        lines = _mermaid_lines(d, nodes)
    except Exception:
        return [] if exp is None else ["valid mermaid request raised"]
    if exp is None:
        return ["mermaid of an absent / ambiguous node_name_or_path did not raise"]
    pre = t_pre(exp)
    if any('"' in s[0] or "\n" in s[0] or " --> " in s[0] for _p, _d, s in pre):
        return []
    if len(pre) == 1:
        return ["mermaid_single_node_no_vertex: rendering has one node and the output has no flow lines"] if not lines else \
               ["one-node rendering produced flow lines"]
    msgs = []
    if len(lines) != len(pre) - 1:
        return [f"{len(lines)} flow lines for {len(pre) - 1} links"]
    label, kids, tos = {}, {}, []
    for ln in lines:
        m = FLOW.match(ln)
        if not m:
            return [f"flow line not understood: {ln!r}"]
        a, al, b, bl = m.groups()
        if al is not None:
            if label.setdefault(a, al) != al:
                msgs.append(f"vertex {a} has two labels")
        if b in label or b in tos:
            msgs.append(f"vertex id {b} introduced twice")
        label[b] = bl
        tos.append(b)
        kids.setdefault(a, []).append(b)
    froms = [x for x in kids if x not in tos]
    if len(froms) != 1:
        return msgs + [f"{len(froms)} root vertices"]
    if froms[0] not in label:
        return msgs + ["root vertex carries no label"]
    def match(v, s):
        if label.get(v) != s[0]:
            return f"vertex {v} labelled {label.get(v)!r} where node {s[0]!r} is"
        ks = kids.get(v, [])
        if [label.get(k) for k in ks] != [c[0] for c in s[2]]:
            return f"children of {v}: {[label.get(k) for k in ks]} vs {[c[0] for c in s[2]]}"
        for k, c in zip(ks, s[2]):
            m = match(k, c)
            if m:
                return m
        return None
    m = match(froms[0], exp)
    if m:
        msgs.append(m)
    if len(set(tos + froms)) != len(pre):
        msgs.append(f"{len(set(tos + froms))} distinct vertex ids for {len(pre)} nodes")
    return msgs[:5]


def _oracle_rt(d):
    exp = expected_tree(dict(d, start=0, nnp=""))
    if not _style_valid(d):
        return []
    stem, branch, final = _style_strings(d)
    gap = " " * len(stem)
    if not (_regex_safe(stem, branch, final, gap) and all(_safe_v(s[0], (stem, branch, final, gap)) for _p, _d, s in t_pre(exp))):
        return []
    if d.get("noprefix") and not (all(ord(c) >= 128 or c == " " for c in stem + branch + final)
                                  and all(s[0].isascii() for _p, _d, s in t_pre(exp))):
        return []
    _root, nodes = _build(d)
    try:
        text = _print_text(dict(d, start=0, nnp="", op="print"), nodes)
        if d.get("noprefix"):
            import bigtree
            back = node_to_spec(bigtree.str_to_tree(text))
        else:
            back = node_to_spec(_s2t(text, [branch, final]))
    except Exception as e:
        return [f"str_to_tree(print_tree(t)) raised {type(e).__name__} for {shape_plain(exp)}"]
    return [] if _same(back, exp) else [f"str_to_tree(print_tree(t)) = {shape_plain(back)} for t = {shape_plain(exp)}"]


def oracle(case):
    d = case.data
    op = d["op"]
    if op in ("yield", "print"):
        return _oracle_vertical(d)
    if op == "hyield":
        return _oracle_horizontal(d)
    if op == "dot":
        return _oracle_dot(d)
    if op == "mermaid":
        return _oracle_mermaid(d)
    if op == "rt":
        return _oracle_rt(d)
    return []


# ================================================================ known findings
def _spec_from_nested(x):
    return (x[0], {}, [_spec_from_nested(c) for c in x[1]])


def replay_known(entry):
    import bigtree
    w = entry["witness"]
    if entry["id"] == "K2":
        root = bigtree.Node(w["root"])
        for i in range(w["branches_named_x"]):
            b = bigtree.Node("b%d" % i, parent=root)
            bigtree.Node("x", parent=b)
        bigtree.Node(w["extra_name"], parent=root)
        ids = [n.get_name() for n in bigtree.tree_to_dot(root).get_nodes()]
        return len(set(ids)) < len(ids) and ids.count("x10") == 2
    if entry["id"] == "K3":
        root, _ = core.build_node_tree(_spec_from_nested(w["tree"]))
        text = bigtree.tree_to_mermaid(root)
        return "-->" not in text and '("' not in text
    if w.get("clause") == "dot_colon_names":
        r = bigtree.Node("r")
        bigtree.Node("x:1", parent=r)
        bigtree.Node("x:2", parent=r)
        ids = [n.get_name() for n in bigtree.tree_to_dot(r).get_nodes()]
        return len(ids) == 3 and len(set(ids)) < 3
    if entry["id"] == "K4":
        r1, _ = core.build_node_tree(_spec_from_nested(w["tree1"]))
        r2, _ = core.build_node_tree(_spec_from_nested(w["tree2"]))
        a = bigtree.hyield_tree(r1, style=w["style"])
        b = bigtree.hyield_tree(r2, style=w["style"])
        return a == b and not _same(_spec_from_nested(w["tree1"]), _spec_from_nested(w["tree2"]))
    return False


def is_known(case, msg, entries):
    d = case.data
    ids = {e["id"] for e in entries}
    if "K2" in ids and d["op"] == "dot" and msg.startswith("dot_vertex_ids_unique:"):
        # only a collision produced by exactly the pinned label+counter scheme is K2
        spec = b_to_t(d["spec"]) if d.get("binary") else d["spec"]
        _root, nodes = _build(d)
        vs, _es = _dot(nodes)
        want = _scheme_ids(spec)
        real = [v[0] for v in vs]
        # pydot groups vertices by name, so compare as multisets of (id, label)
        if sorted(vs) != sorted(zip(want, (s[0] for _p, _d, s in t_pre(spec)))):
            return False
        dup = {i for i in real if real.count(i) > 1}
        # every colliding id must come from two different labels (label ending in a digit), never from one label
        for i in dup:
            labels = {v[1] for v in vs if v[0] == i}
            if len(labels) < 2 or not any(l[-1:].isdigit() for l in labels):
                return False
        return bool(dup)
    if "K3" in ids and d["op"] == "mermaid" and msg.startswith("mermaid_single_node_no_vertex:"):
        exp = expected_tree(d)
        if exp is None or len(t_pre(exp)) != 1:
            return False
        _root, nodes = _build(d)
        return _mermaid_lines(d, nodes) == []
    if "K4" in ids and d["op"] == "hyield" and msg.startswith("hprint_decodable_ascii:"):
        from bigtree.utils.constants import ExportConstants
        ch = ExportConstants.HPRINT_STYLES.get("ascii")
        return d["style"] == "ascii" and ch is not None and ch[0] == ch[4]
    return False


# ================================================================ generators
ALPH_SMALL = ["a", "b", "c", "x", "y"]
ALPH_LEN = ["a", "bb", "ccc", "dddd", "eeeee", "ffffff", "g", "hh", "iii"]
ALPH_HOSTILE_V = ["a b", " lead", "trail ", "|x", "+--", "x|-- y", "`", "é", "│", "├── z", "-", "a\tb", "0", "x1", "x10", "日本", "　w", "a:b"]
ALPH_DIGITS = ["x", "x1", "x10", "y", "y0", "1", "10", "b", "b2"]


def name_distinct(shape):
    return core.label(shape, lambda i, dd, k, p: "n%d" % i)


def name_lengths(shape, rng):
    return core.label(shape, lambda i, dd, k, p: rng.choice(ALPH_LEN) + str(i))


def name_repeated(shape, rng, alphabet=ALPH_SMALL):
    return core.label_sibling_unique(shape, rng, alphabet)


def with_attrs(spec, rng):
    def go(s):
        at = {}
        if rng.random() < 0.7:
            at["age"] = rng.choice([None, 0, 7, 90, -3])
        if rng.random() < 0.5:
            at["tag"] = rng.choice(["", "t", "a b", None, True, False])
        if rng.random() < 0.3:
            at["zz"] = rng.randrange(100)
        return (s[0], at, [go(c) for c in s[2]])
    return go(spec)


def k2_tree(nx=11, extra="x1"):
    return ("r", {}, [("b%d" % i, {}, [("x", {}, [])]) for i in range(nx)] + [(extra, {}, [])])


def stray_stem_shapes():
    """depth >= 4 with finished branches above (the 'forgets to close a stem at depth >= 3' mutant)"""
    return [
        [[[[[], []], []], []], [[[[]]]]],
        [[[[[[]], []]], [[[]], []]], [[[[[]]]]], []],
        [[[], [[], [[], [[]]]]], [[[[[]]]]]],
        [[[[[], [], []]], [[[]]]], [[[[[]]], []]]],
    ]


def rand_shape(rng, lo=8, hi=40):
    return core.random_shape(rng, rng.randint(lo, hi))


def pick_nnp(rng, spec, binary=False):
    """(start, nnp): mostly resolvable, sometimes ambiguous / absent"""
    t = b_to_t(spec) if binary else spec
    pre = t_pre(t)
    r = rng.random()
    if r < 0.35:
        return 0, ""
    start = 0 if rng.random() < 0.7 else rng.randrange(len(pre))
    sub = t_pre(pre[start][2], pre[start][0][: len(pre[start][0]) - len(pre[start][2][0]) - 1], pre[start][1])
    if r < 0.45:
        return start, ""
    p, _dd, s = rng.choice(sub)
    form = rng.random()
    if form < 0.4:
        return start, s[0]
    if form < 0.6:
        return start, p
    if form < 0.8:
        parts = p.split("/")
        return start, "/".join(parts[-2:])
    if form < 0.9:
        return start, s[0] + "/"
    return start, rng.choice(["nope", "/", p + "x"])


def md_choice(rng, depth):
    return rng.choice([0, 0, 0, 1, 2, 3, 4, depth, depth + 1])


def s2t_malformed(rng, text):
    """mutate a rendered text: the malformed stream of str_to_tree"""
    lines = text.split("\n")
    k = rng.random()
    if k < 0.2 and len(lines) > 1:
        i = rng.randrange(1, len(lines))
        lines[i] = " " + lines[i]
    elif k < 0.4 and len(lines) > 1:
        i = rng.randrange(1, len(lines))
        lines[i] = lines[i].lstrip(" |`+-│├└─")
    elif k < 0.55 and len(lines) > 2:
        del lines[rng.randrange(1, len(lines) - 1)]
    elif k < 0.7:
        lines = ["", ""] + lines + [""]
    elif k < 0.8 and len(lines) > 1:
        i = rng.randrange(1, len(lines))
        lines.insert(i, lines[i])
    elif k < 0.9:
        lines = [""]
    else:
        lines = [l[2:] if j else l for j, l in enumerate(lines)]
    return "\n".join(lines)


def _render_py(spec, stem, branch, final):
    """a plain renderer used ONLY to produce input texts for the s2t stream"""
    out = [spec[0]]
    gap = " " * len(stem)
    def go(s, pre):
        for i, c in enumerate(s[2]):
            lastc = i + 1 == len(s[2])
            out.append(pre + (final if lastc else branch) + c[0])
            go(c, pre + (gap if lastc else stem))
    go(spec, "")
    return "\n".join(out)


def gen(rng: random.Random, tier: str):
    from bigtree.utils.constants import ExportConstants
    PS = ExportConstants.PRINT_STYLES
    quick = tier == "quick"
    cases = []
    add = cases.append

    # ---------------- corpus
    for sh in stray_stem_shapes():
        spec = name_distinct(sh)
        for st in BUILTIN:
            add(mk({"op": "yield", "spec": spec, "style": st}, ("corpus", "stray-stem")))
            add(mk({"op": "hyield", "spec": spec, "style": st, "inter": True}, ("corpus",)))
        add(mk({"op": "print", "spec": spec, "style": "const"}, ("corpus", "stray-stem")))
        add(mk({"op": "rt", "spec": spec, "style": "const"}, ("corpus",)))
        add(mk({"op": "mermaid", "spec": spec}, ("corpus",)))
        add(mk({"op": "dot", "spec": spec}, ("corpus",)))
    add(mk({"op": "dot", "spec": k2_tree()}, ("corpus", "k2shape")))
    add(mk({"op": "dot", "spec": k2_tree(10)}, ("corpus", "near-k2")))
    add(mk({"op": "mermaid", "spec": ("a", {}, [])}, ("corpus", "mermaid-single")))
    k4a = _spec_from_nested(["r", [["P", [["a", []], ["b", []], ["c", []]]], ["Q", [["d", []], ["e", []], ["f", []], ["g", []], ["h", []]]]]])
    k4b = _spec_from_nested(["r", [["P", [["a", []], ["b", []], ["c", []], ["d", []]]], ["Q", [["e", []], ["f", []], ["g", []], ["h", []]]]]])
    for sp in (k4a, k4b):
        for st in BUILTIN:
            add(mk({"op": "hyield", "spec": sp, "style": st, "inter": True}, ("corpus", "k4shape" if st == "ascii" else "k4-other-style")))

    # wide parents: 12 and 104 children (child indices of two and three digits), some of them with children of their own
    for width in (12, 104):
        kids = [("k%d" % i, {}, [("g%d_%d" % (i, j), {}, []) for j in range(2)] if i % 5 == 3 else []) for i in range(width)]
        wide = ("w", {}, [("x", {}, kids), ("y", {}, [])])
        for op in ("mermaid", "dot", "yield", "hyield"):
            dd = {"op": op, "spec": wide}
            if op in ("yield", "hyield"):
                dd["style"] = "const"
            if op == "hyield":
                dd["inter"] = True
            add(mk(dd, ("corpus", "wide=%d" % width)))

    # ---------------- exhaustive small scope
    nmax = 6 if quick else 7
    for shape in core.all_shapes_upto(nmax):
        spec = name_distinct(shape)
        n = core.shape_size(shape)
        tg = ("enum", "n=%d" % n)
        for st in BUILTIN:
            add(mk({"op": "yield", "spec": spec, "style": st}, tg))
            for inter in (True, False):
                add(mk({"op": "hyield", "spec": spec, "style": st, "inter": inter}, tg))
        add(mk({"op": "dot", "spec": spec}, tg))
        add(mk({"op": "mermaid", "spec": spec}, tg + (("mermaid-single",) if n == 1 else ())))
        add(mk({"op": "rt", "spec": spec, "style": rng.choice(BUILTIN)}, tg))
        add(mk({"op": "rt", "spec": spec, "style": rng.choice(BUILTIN), "noprefix": True}, tg + ("noprefix",)))
        add(mk({"op": "hdec", "spec": spec, "style": rng.choice([s for s in BUILTIN if s != "ascii"]), "inter": True}, tg))
        add(mk({"op": "hdec", "spec": spec, "style": "const", "inter": False}, tg))
        # names of mixed length (centering, padding per depth)
        sp2 = name_lengths(shape, rng)
        add(mk({"op": "hyield", "spec": sp2, "style": rng.choice(BUILTIN), "inter": True, "via": "print"}, tg + ("mixed-length",)))
        add(mk({"op": "hdec", "spec": sp2, "style": "rounded", "inter": True}, tg + ("mixed-length",)))
        # options
        d = core.shape_depth(shape)
        start, nnp = pick_nnp(rng, spec)
        add(mk({"op": "yield", "spec": spec, "style": rng.choice(BUILTIN), "md": md_choice(rng, d), "start": start, "nnp": nnp,
                "sform": rng.choice(["plain", "obj", "list"])}, tg + ("options",)))
        add(mk({"op": "hyield", "spec": spec, "style": rng.choice(BUILTIN), "inter": rng.random() < 0.7, "md": md_choice(rng, d),
                "start": start, "nnp": nnp, "sform": rng.choice(["plain", "obj", "list"])}, tg + ("options",)))
        add(mk({"op": "mermaid", "spec": spec, "md": md_choice(rng, d), "start": 0, "nnp": nnp if start == 0 else ""}, tg + ("options",)))

    # ---------------- binary trees with empty slots
    bmax = 4 if quick else 5
    for nb in range(1, bmax + 1):
        for bs in core.all_bshapes(nb):
            spec = core.label_bshape(bs)
            tg = ("binary", "n=%d" % nb)
            add(mk({"op": "yield", "spec": spec, "binary": True, "style": rng.choice(BUILTIN)}, tg))
            for inter in (True, False):
                add(mk({"op": "hyield", "spec": spec, "binary": True, "style": rng.choice(BUILTIN), "inter": inter,
                        "md": rng.choice([0, 0, 2, 3])}, tg))
            add(mk({"op": "dot", "spec": spec, "binary": True}, tg))
            add(mk({"op": "mermaid", "spec": spec, "binary": True}, tg))
            add(mk({"op": "hdec", "spec": spec, "binary": True, "style": "const", "inter": True}, tg))
    for _ in range(40 if quick else 400):
        nb = rng.randint(5, 25)
        names = rng.choice([None, lambda i: rng.choice(ALPH_LEN) + str(i)])
        spec = core.label_bshape(core.random_bshape(rng, nb), names)
        tg = ("binary-random",)
        add(mk({"op": "yield", "spec": spec, "binary": True, "style": rng.choice(BUILTIN), "md": rng.choice([0, 0, 3, 5])}, tg))
        add(mk({"op": "hyield", "spec": spec, "binary": True, "style": rng.choice(BUILTIN), "inter": rng.random() < 0.7,
                "md": rng.choice([0, 0, 3, 5]), "via": rng.choice(["yield", "print"])}, tg))
        add(mk({"op": "hdec", "spec": spec, "binary": True, "style": rng.choice(["const", "ansi", "double"]), "inter": True}, tg))
        add(mk({"op": "mermaid", "spec": spec, "binary": True}, tg))
        add(mk({"op": "dot", "spec": spec, "binary": True}, tg))

    # ---------------- random larger trees
    nr = 120 if quick else 1500
    for it in range(nr):
        shape = rand_shape(rng)
        depth = core.shape_depth(shape)
        fan = core.shape_fanout(shape)
        tg = ("random", "depth>=5" if depth >= 5 else "depth<5", "fanout>=4" if fan >= 4 else "fanout<4")
        scheme = rng.choice(["distinct", "repeated", "lengths", "digits"])
        if scheme == "distinct":
            spec = name_distinct(shape)
        elif scheme == "repeated":
            spec = name_repeated(shape, rng)
        elif scheme == "lengths":
            spec = name_lengths(shape, rng)
        else:
            spec = name_repeated(shape, rng, ALPH_DIGITS)
        tg = tg + ("names=" + scheme,)
        start, nnp = pick_nnp(rng, spec)
        md = md_choice(rng, depth)
        for st in rng.sample(BUILTIN, 2):
            add(mk({"op": "yield", "spec": spec, "style": st, "md": md, "start": start, "nnp": nnp,
                    "sform": rng.choice(["plain", "obj", "list"])}, tg))
        add(mk({"op": "yield", "spec": spec, "style": rng.choice(CUSTOM_STYLES), "md": rng.choice([0, md]),
                "sform": rng.choice(["plain", "obj", "tuple", "kwobj", "kwobj"])}, tg + ("custom-style",)))
        add(mk({"op": "print", "spec": spec, "style": rng.choice(BUILTIN), "md": md}, tg))
        for st in rng.sample(BUILTIN, 2):
            add(mk({"op": "hyield", "spec": spec, "style": st, "inter": rng.random() < 0.7, "md": rng.choice([0, md]),
                    "start": start, "nnp": nnp, "via": rng.choice(["yield", "print"]),
                    "sform": rng.choice(["plain", "obj", "list"])}, tg))
        add(mk({"op": "hyield", "spec": spec, "style": rng.choice(CUSTOM_HSTYLES), "inter": True,
                "sform": rng.choice(["plain", "obj", "tuple", "kwobj", "kwobj"])}, tg + ("custom-style",)))
        add(mk({"op": "hdec", "spec": spec, "style": rng.choice([s for s in BUILTIN if s != "ascii"] + [CUSTOM_HSTYLES[0]]),
                "inter": rng.random() < 0.8, "md": rng.choice([0, 0, md])}, tg))
        add(mk({"op": "mermaid", "spec": spec, "md": rng.choice([0, md]), "start": 0, "nnp": nnp if start == 0 else ""}, tg))
        if scheme != "digits" or rng.random() < 0.5:
            add(mk({"op": "dot", "spec": spec}, tg + (("digit-names",) if scheme == "digits" else ())))
        add(mk({"op": "rt", "spec": spec, "style": rng.choice(BUILTIN + CUSTOM_STYLES[:4]), "md": rng.choice([0, 0, md])}, tg))
        add(mk({"op": "rt", "spec": spec, "style": rng.choice(BUILTIN + CUSTOM_STYLES[3:4]), "md": rng.choice([0, 0, md]),
                "noprefix": True}, tg + ("noprefix",)))
        # print_tree attribute options
        if it % 3 == 0:
            sa = with_attrs(spec, rng)
            mode = rng.choice(["all", "list", "list"])
            add(mk({"op": "print", "spec": sa, "style": rng.choice(BUILTIN), "md": rng.choice([0, md]),
                    "attrs": {"mode": mode, "keys": rng.choice([["age"], ["age", "tag"], ["tag", "nope"], ["zz", "age"]]),
                              "omit": rng.random() < 0.5, "br": rng.choice([["[", "]"], ["*(", ")"], ["", ""]])}}, tg + ("attrs",)))
    # rare K2-shaped trees (tagged)
    for _ in range(2 if quick else 12):
        nx = rng.choice([11, 12, 21])
        add(mk({"op": "dot", "spec": k2_tree(nx, rng.choice(["x1", "x10"] if nx > 11 else ["x1"]))}, ("k2shape",)))

    # ---------------- hostile names (tie of the exact text; decodability is not claimed for them)
    for _ in range(60 if quick else 600):
        shape = core.random_shape(rng, rng.randint(2, 12))
        spec = name_repeated(shape, rng, ALPH_HOSTILE_V)
        tg = ("hostile-names",)
        add(mk({"op": "yield", "spec": spec, "style": rng.choice(BUILTIN)}, tg))
        add(mk({"op": "hyield", "spec": spec, "style": rng.choice(BUILTIN), "inter": rng.random() < 0.7}, tg))
        add(mk({"op": "rt", "spec": spec, "style": rng.choice(BUILTIN), "noprefix": rng.random() < 0.4}, tg))
        if not any(":" in s[0] or '"' in s[0] for _p, _d, s in t_pre(spec)):
            add(mk({"op": "dot", "spec": spec}, tg))
        add(mk({"op": "mermaid", "spec": spec}, tg))

    # ---------------- malformed stream: styles and str_to_tree texts
    for _ in range(40 if quick else 300):
        shape = core.random_shape(rng, rng.randint(1, 8))
        spec = name_distinct(shape)
        tg = ("malformed",)
        add(mk({"op": "yield", "spec": spec, "style": rng.choice(BAD_STYLES + ["nostyle"]), "sform": rng.choice(["plain", "obj", "tuple"])}, tg))
        add(mk({"op": "hyield", "spec": spec, "style": rng.choice(BAD_HSTYLES + ["nostyle"]), "inter": True,
                "sform": rng.choice(["plain", "obj", "tuple"])}, tg))
    for _ in range(250 if quick else 2500):
        shape = core.random_shape(rng, rng.randint(1, 14))
        spec = rng.choice([name_distinct(shape), name_repeated(shape, rng), name_repeated(shape, rng, ALPH_HOSTILE_V[:12])])
        key = rng.choice(BUILTIN)
        stem, branch, final = PS[key] if rng.random() < 0.8 else rng.choice(CUSTOM_STYLES)
        text = _render_py(spec, stem, branch, final)
        r = rng.random()
        if r < 0.45:
            text = s2t_malformed(rng, text)
        prefixes = rng.choice([[branch, final], [branch.rstrip(), final.rstrip()], [final, branch], [], [], [branch]])
        add(mk({"op": "s2t", "prefixes": prefixes, "text": text}, ("s2t", "mutated" if r < 0.45 else "plain",
                                                                    "prefix-list" if prefixes else "no-prefix-list")))
    # ---------------- the same dot / mermaid requests with presentation options (colours, shapes, arrows, edge labels,
    # per-node style callables and attributes): they restyle, and must not change which vertices and links exist
    hist = []
    for c in cases:
        if "corpus" not in c.tags and rng.random() < 0.15:
            h = with_history(rng, c)
            if h is not None:
                hist.append(h)
    cases += hist
    styled = []
    for c in cases:
        if c.data["op"] in ("dot", "mermaid") and rng.random() < 0.5:
            styled.append(Case(c.line, dict(c.data, sopts=style_opts(rng, c.data["op"])), tuple(c.tags) + ("style-options",)))
    cases += styled
    return cases


def nontrivial(case):
    d = case.data
    if d["op"] == "s2t":
        return d["text"].count("\n") >= 3
    e = expected_tree(d) if "spec" in d else None
    return e is not None and len(t_pre(e)) >= 4


# ================================================================ shrinking
def _drop_leaf_specs(spec):
    nodes = core.spec_nodes(spec)
    for idx in range(len(nodes) - 1, 0, -1):
        addr, s = nodes[idx]
        if s[2]:
            continue
        def remove(t, a):
            if len(a) == 1:
                return (t[0], t[1], t[2][:a[0]] + t[2][a[0] + 1:])
            return (t[0], t[1], [remove(c, a[1:]) if k == a[0] else c for k, c in enumerate(t[2])])
        yield remove(spec, addr)


def shrink(case):
    d = case.data
    if d["op"] == "s2t":
        lines = d["text"].split("\n")
        for i in range(len(lines) - 1, 0, -1):
            nd = dict(d, text="\n".join(lines[:i] + lines[i + 1:]))
            yield Case(_line(nd), nd, case.tags)
        return
    if d.get("hist"):
        nd = {k: v for k, v in d.items() if k != "hist"}
        yield Case(_line(nd), nd, case.tags)          # the same tree without the history
        h = d["hist"]
        for k in range(len(h["edits"])):              # shorter histories
            ed = h["edits"][:k] + h["edits"][k + 1:]
            try:
                fin = (H.bstruct_final if d.get("binary") else H.final)(h["init"], ed)[0]
            except Exception:  # noqa: BLE001
                continue
            nd = dict(d, spec=fin if d.get("binary") else _as_tuple_spec(fin), hist={"init": h["init"], "edits": ed})
            yield Case(_line(nd), nd, case.tags)
        return
    for key, val in (("md", 0), ("nnp", ""), ("start", 0)):
        if d.get(key) != val:
            nd = dict(d); nd[key] = val
            if key == "start":
                nd["nnp"] = ""
            yield Case(_line(nd), nd, case.tags)
    if d.get("attrs"):
        nd = dict(d); nd.pop("attrs")
        yield Case(_line(nd), nd, case.tags)
    if d.get("binary"):
        return
    if d.get("start", 0) == 0:
        for ns in _drop_leaf_specs(d["spec"]):
            nd = dict(d, spec=ns)
            yield Case(_line(nd), nd, case.tags)


NOT_READY = False
RULE = RULE + ' Fourth session: tree_to_dot handed non-root nodes; parents with 12 and 104 children for all four renderers; the labels a callable edge_attr returns are checked edge by edge.'
RULE = RULE + ' Fifth session: style objects made for other icons and re-assigned before use.'
