"""Shared by C16 / C17: DAG case data, real DAGNode builders, graph-theoretic helpers (model-free).

A DAG case is `{"n": int, "edges": [[p, c], …] (construction order), "modes": "PCRL…" (one letter
per edge: which real API call adds it), "names": [str]*n (distinct), "attrs": {str(id): {k: v}}}`.
Ids are positions in `names`; the protocol speaks ids only (names are distinct by hypothesis, the
model keys everything by id).
"""
from __future__ import annotations
import itertools, random
import core


# ------------------------------------------------------------------ graph helpers (plain Python)
def is_acyclic(n, edges):
    ch = {i: [] for i in range(n)}
    for p, c in edges:
        if p == c:
            return False
        ch[p].append(c)
    col = {}
    def dfs(x):
        col[x] = 1
        for y in ch[x]:
            if col.get(y) == 1:
                return True
            if y not in col and dfs(y):
                return True
        col[x] = 2
        return False
    return not any(i not in col and dfs(i) for i in range(n))


def has_cycle_rel(edges):
    """cycle in a relation over arbitrary hashable names"""
    names = sorted({x for e in edges for x in e}, key=repr)
    idx = {x: i for i, x in enumerate(names)}
    return not is_acyclic(len(names), [(idx[p], idx[c]) for p, c in edges])


def component(nodes, edges, start):
    """weakly connected component of `start` (set of nodes)"""
    adj = {x: set() for x in nodes}
    for p, c in edges:
        adj.setdefault(p, set()).add(c)
        adj.setdefault(c, set()).add(p)
    seen = {start}
    todo = [start]
    while todo:
        x = todo.pop()
        for y in adj.get(x, ()):
            if y not in seen:
                seen.add(y)
                todo.append(y)
    return seen


def weakly_connected(n, edges):
    return n > 0 and len(component(range(n), edges, 0)) == n


def all_acyclic_edge_sets(n):
    pairs = [(i, j) for i in range(n) for j in range(n) if i != j]
    for r in range(len(pairs) + 1):
        for es in itertools.combinations(pairs, r):
            if is_acyclic(n, es):
                yield list(es)


def random_dag(rng: random.Random, n: int, max_parents: int = 4, connected: bool = True):
    """random DAG on n nodes: a random topological order, each later node draws up to
    `max_parents` parents among the earlier ones (at least one when `connected`)"""
    order = list(range(n))
    rng.shuffle(order)
    edges = []
    for j in range(1, n):
        lo = 1 if connected else 0
        k = rng.randint(lo, min(j, max_parents))
        if not connected and rng.random() < 0.35:
            k = 0
        for i in rng.sample(range(j), k):
            edges.append((order[i], order[j]))
    rng.shuffle(edges)
    return edges


def fan_dag(rng: random.Random, max_nodes: int = 10):
    """a centre with 3-4 parents and/or 3-4 children, each of which owns a private appendix (1-2
    nodes reachable only through it): the shape on which 'explore only the first k neighbours'
    loses edges. Returns (n, edges)."""
    centre = 0
    n = 1
    edges = []
    for up in (True, False):
        k = rng.choice([0, 3, 3, 4]) if n < max_nodes - 3 else 0
        for _ in range(k):
            if n >= max_nodes:
                break
            nb = n
            n += 1
            edges.append((nb, centre) if up else (centre, nb))
            prev = nb
            for _ in range(rng.randint(0, 2)):
                if n >= max_nodes:
                    break
                x = n
                n += 1
                edges.append((x, prev) if rng.random() < 0.5 else (prev, x))
                prev = x if rng.random() < 0.6 else prev
    if not edges:
        return fan_dag(rng, max_nodes)
    perm = list(range(n))
    rng.shuffle(perm)
    edges = [(perm[a], perm[b]) for a, b in edges]
    if rng.random() < 0.5:
        rng.shuffle(edges)
    return n, edges


# ------------------------------------------------------------------ names / attributes
HOSTILE = ["a b", "a/b", "é", "0", "None", "parents", "x,y", "a>b", "nan", "näme", "A", "a", "(", "'q'", "\\", "名"]


def make_names(rng: random.Random, n: int, scheme: str | None = None):
    scheme = scheme or rng.choice(["n", "n", "letters", "hostile"])
    if scheme == "n":
        return ["n%d" % i for i in range(n)]
    if scheme == "letters":
        return [chr(ord("a") + i) if i < 26 else "z%d" % i for i in range(n)]
    pool = HOSTILE[:]
    rng.shuffle(pool)
    return [pool[i] if i < len(pool) else pool[i % len(pool)] + str(i) for i in range(n)]


ATTR_KEYS = {"s": "int", "age": "int", "k_1": "str", "Z": "str"}
STR_VALUES = ["x", "", "a b", "é", "0", "v1"]


def random_attrs(rng: random.Random, n: int, density: float, private: bool = False):
    out = {}
    for i in range(n):
        a = {}
        for k, ty in ATTR_KEYS.items():
            if rng.random() < density:
                a[k] = rng.randint(-3, 9) if ty == "int" else rng.choice(STR_VALUES)
        if private and rng.random() < 0.3:
            a["_hid"] = rng.randint(0, 5)
        if a:
            out[str(i)] = a
    return out


# ------------------------------------------------------------------ real objects
def build_real(d):
    """build real DAGNode objects edge by edge through the public setters; returns nodes (by id)"""
    from bigtree import DAGNode
    attrs = d.get("attrs") or {}
    nodes = [DAGNode(nm, **attrs.get(str(i), {})) for i, nm in enumerate(d["names"])]
    modes = d.get("modes") or ""
    for k, (p, c) in enumerate(d["edges"]):
        m = modes[k] if k < len(modes) else "P"
        if m == "P":
            nodes[c].parents = [nodes[p]]
        elif m == "C":
            nodes[p].children = [nodes[c]]
        elif m == "R":
            nodes[p] >> nodes[c]
        else:
            nodes[c] << nodes[p]
    return nodes


def real_edges(nodes, ids):
    """edge multiset read off the real objects (children lists), plus a symmetry check"""
    es = []
    msgs = []
    for n in nodes:
        for c in n.children:
            es.append((ids(n), ids(c)))
            if not any(p is n for p in c.parents):
                msgs.append(f"link {ids(n)}>{ids(c)} is not mirrored in parents")
        for p in n.parents:
            if not any(c is n for c in p.children):
                msgs.append(f"link {ids(p)}>{ids(n)} is not mirrored in children")
    return es, msgs


def enc_edges(es):
    return ",".join("%s>%s" % (p, c) for p, c in es) if es else "-"


def enc_node_attrs(attrs: dict) -> str:
    items = []
    for i in sorted(attrs, key=int):
        if attrs[i]:
            items.append("%s:%s" % (i, core.enc_attrs(attrs[i])))
    return ";".join(items) if items else "-"


def dag_tokens(d) -> str:
    return "n=%d E=%s" % (d["n"], enc_edges(d["edges"]))


def multiset(s: str, sep: str):
    return sorted(s.split(sep)) if s not in ("-", "") else []


def shrink_dag(d):
    """smaller DAG candidates: drop one edge; drop the highest isolated node"""
    n, edges = d["n"], d["edges"]
    for k in range(len(edges)):
        nd = dict(d, edges=edges[:k] + edges[k + 1:], modes=(d.get("modes") or "")[:k] + (d.get("modes") or "")[k + 1:])
        yield nd
    used = {x for e in edges for x in e}
    last = n - 1
    if n > 1 and last not in used and d.get("start", 0) != last:
        attrs = {k: v for k, v in (d.get("attrs") or {}).items() if int(k) != last}
        yield dict(d, n=n - 1, names=d["names"][:-1], attrs=attrs)
