"""Shared by C16 / C17: DAG case data, real DAGNode builders, graph-theoretic helpers (model-free).

A DAG case is `{"n": int, "edges": [[p, c], …] (construction order), "modes": "PCRL…" (one letter
per edge: which real API call adds it), "names": [str]*n (distinct), "attrs": {str(id): {k: v}}}`.
Ids are positions in `names`; the protocol speaks ids only (names are distinct by hypothesis, the
model keys everything by id).
"""
from __future__ import annotations
import zlib
import itertools, random
import core


# ------------------------------------------------------------------ graph helpers (plain Python)
def is_acyclic(n, edges):
    ch = {i: [] for i in range(n)}
    for p, c in edges:
        if p == c:
            return False
        ch[p].append(c)
    col = {}
    def dfs(x):
        col[x] = 1
        for y in ch[x]:
            if col.get(y) == 1:
                return True
            if y not in col and dfs(y):
                return True
        col[x] = 2
        return False
    return not any(i not in col and dfs(i) for i in range(n))


def has_cycle_rel(edges):
    """cycle in a relation over arbitrary hashable names"""
    names = sorted({x for e in edges for x in e}, key=repr)
    idx = {x: i for i, x in enumerate(names)}
    return not is_acyclic(len(names), [(idx[p], idx[c]) for p, c in edges])


def component(nodes, edges, start):
    """weakly connected component of `start` (set of nodes)"""
    adj = {x: set() for x in nodes}
    for p, c in edges:
        adj.setdefault(p, set()).add(c)
        adj.setdefault(c, set()).add(p)
    seen = {start}
    todo = [start]
    while todo:
        x = todo.pop()
        for y in adj.get(x, ()):
            if y not in seen:
                seen.add(y)
                todo.append(y)
    return seen


def weakly_connected(n, edges):
    return n > 0 and len(component(range(n), edges, 0)) == n


def all_acyclic_edge_sets(n):
    pairs = [(i, j) for i in range(n) for j in range(n) if i != j]
    for r in range(len(pairs) + 1):
        for es in itertools.combinations(pairs, r):
            if is_acyclic(n, es):
                yield list(es)


def random_dag(rng: random.Random, n: int, max_parents: int = 4, connected: bool = True):
    """random DAG on n nodes: a random topological order, each later node draws up to
    `max_parents` parents among the earlier ones (at least one when `connected`)"""
    order = list(range(n))
    rng.shuffle(order)
    edges = []
    for j in range(1, n):
        lo = 1 if connected else 0
        k = rng.randint(lo, min(j, max_parents))
        if not connected and rng.random() < 0.35:
            k = 0
        for i in rng.sample(range(j), k):
            edges.append((order[i], order[j]))
    rng.shuffle(edges)
    return edges


def fan_dag(rng: random.Random, max_nodes: int = 10):
    """a centre with 3-4 parents and/or 3-4 children, each of which owns a private appendix (1-2
    nodes reachable only through it): the shape on which 'explore only the first k neighbours'
    loses edges. Returns (n, edges)."""
    centre = 0
    n = 1
    edges = []
    for up in (True, False):
        k = rng.choice([0, 3, 3, 4]) if n < max_nodes - 3 else 0
        for _ in range(k):
            if n >= max_nodes:
                break
            nb = n
            n += 1
            edges.append((nb, centre) if up else (centre, nb))
            prev = nb
            for _ in range(rng.randint(0, 2)):
                if n >= max_nodes:
                    break
                x = n
                n += 1
                edges.append((x, prev) if rng.random() < 0.5 else (prev, x))
                prev = x if rng.random() < 0.6 else prev
    if not edges:
        return fan_dag(rng, max_nodes)
    perm = list(range(n))
    rng.shuffle(perm)
    edges = [(perm[a], perm[b]) for a, b in edges]
    if rng.random() < 0.5:
        rng.shuffle(edges)
    return n, edges


# ------------------------------------------------------------------ names / attributes
HOSTILE = ["a b", "a/b", "é", "0", "None", "parents", "x,y", "a>b", "nan", "näme", "A", "a", "(", "'q'", "\\", "名"]


JOINERS = ["-", "_", ">", "/", ",", " ", "->", "|", ":", ".", ""]


def concat_names(rng: random.Random, n: int):
    """distinct names that collide under string concatenation: every name is 1..3 short tokens joined by one
    joiner J, so that p1+J+c1 == p2+J+c2 for different pairs (a-b + c  vs  a + b-c); defeats any key built by
    joining two names with J (and, for J == "", by plain concatenation)"""
    j = rng.choice(JOINERS)
    toks = rng.sample(["a", "b", "c", "ab", "x", "1", "10", "0"], 4)
    pool, seen = [], set()
    for k in (1, 2, 3):
        for combo in itertools.product(toks, repeat=k):
            nm = j.join(combo)
            if nm and nm not in seen:
                seen.add(nm)
                pool.append(nm)
    # prefer short names (more collisions), keep it random
    head = pool[: 4 + 16]
    rng.shuffle(head)
    out = head[:n]
    i = 0
    while len(out) < n:
        cand = pool[(20 + i) % len(pool)] if len(pool) > 20 else "q%d" % i
        if cand not in out:
            out.append(cand)
        i += 1
    return out


def collide_dag(rng: random.Random, joiner: str):
    """(n, edges, names): two different edges whose end-point names concatenate (with `joiner`) to the same
    string: (a J b) > c  and  a > (b J c); plus a few random edges that keep the DAG weakly connected"""
    a, b, c = rng.sample(["a", "b", "c", "x", "1", "ab", "0"], 3)
    names = [a, a + joiner + b, b + joiner + c, c]
    if len(set(names)) < 4:
        names = ["p", "p" + joiner + "q", "q" + joiner + "r", "r"]
    if len(set(names)) < 4:   # joiner == "" and unlucky tokens
        names = ["p", "pq", "qr", "r"]
    n = 4
    edges = [(1, 3), (0, 2)]
    extra = rng.choice([[(0, 1)], [(2, 3)], [(0, 3)], [(1, 2)], [(0, 1), (2, 3)]])
    edges += extra
    for _ in range(rng.randint(0, 2)):
        names.append("z%d" % n)
        edges.append((rng.randrange(n), n) if rng.random() < 0.5 else (n, rng.choice([2, 3])))
        n += 1
    if not is_acyclic(n, edges):
        return collide_dag(rng, joiner)
    rng.shuffle(edges)
    perm = list(range(n))
    rng.shuffle(perm)
    edges = [(perm[x], perm[y]) for x, y in edges]
    nm = [None] * n
    for i, p in enumerate(perm):
        nm[p] = names[i]
    return n, edges, nm


def make_names(rng: random.Random, n: int, scheme: str | None = None):
    scheme = scheme or rng.choice(["n", "n", "letters", "hostile", "concat"])
    if scheme == "concat":
        return concat_names(rng, n)
    if scheme == "n":
        return ["n%d" % i for i in range(n)]
    if scheme == "letters":
        return [chr(ord("a") + i) if i < 26 else "z%d" % i for i in range(n)]
    pool = HOSTILE[:]
    rng.shuffle(pool)
    return [pool[i] if i < len(pool) else pool[i % len(pool)] + str(i) for i in range(n)]


ATTR_KEYS = {"s": "int", "age": "int", "k_1": "str", "Z": "str"}
STR_VALUES = ["x", "", "a b", "é", "0", "v1"]


def random_attrs(rng: random.Random, n: int, density: float, private: bool = False):
    out = {}
    for i in range(n):
        a = {}
        for k, ty in ATTR_KEYS.items():
            if rng.random() < density:
                a[k] = rng.randint(-3, 9) if ty == "int" else rng.choice(STR_VALUES)
        if private and rng.random() < 0.3:
            a["_hid"] = rng.randint(0, 5)
        if a:
            out[str(i)] = a
    return out


# ------------------------------------------------------------------ real objects
_HOOKED = {}


def hooked_class():
    """DAGNode subclass whose four assign hooks READ the graph (ancestors / descendants / siblings of the node and of
    the nodes being attached; reading is allowed to hooks) and raise when armed ('pre' / 'post')."""
    from bigtree import DAGNode
    if "cls" in _HOOKED:
        return _HOOKED["cls"]

    class HDag(DAGNode):
        ARM = None
        OP = None

        def _peek(self, others):
            for x in [self] + [o for o in others if isinstance(o, DAGNode)]:
                list(x.ancestors), list(x.descendants), list(x.siblings)

        def _DAGNode__pre_assign_parents(self, new_parents):
            self._peek(new_parents)
            if HDag.ARM == "pre":
                raise core.hook_exc(HDag.OP)

        def _DAGNode__post_assign_parents(self, new_parents):
            self._peek(new_parents)
            if HDag.ARM == "post":
                raise core.hook_exc(HDag.OP)

        def _DAGNode__pre_assign_children(self, new_children):
            self._peek(new_children)
            if HDag.ARM == "pre":
                raise core.hook_exc(HDag.OP)

        def _DAGNode__post_assign_children(self, new_children):
            self._peek(new_children)
            if HDag.ARM == "post":
                raise core.hook_exc(HDag.OP)

    _HOOKED["cls"] = HDag
    return HDag


_SCRATCH = []      # ONE list object of the caller, re-used for every assignment (a loader with a scratch list)


def _add_edge(nodes, p, c, m):
    if m == "P":
        _SCRATCH.clear(); _SCRATCH.append(nodes[p])
        nodes[c].parents = _SCRATCH
        _SCRATCH.clear()
    elif m == "C":
        _SCRATCH.clear(); _SCRATCH.append(nodes[c])
        nodes[p].children = _SCRATCH
        _SCRATCH.clear()
    elif m == "R":
        nodes[p] >> nodes[c]
    else:
        nodes[c] << nodes[p]


def _warm(nodes, v):
    """read-only queries whose results are discarded (whatever the code remembers from them must not matter)"""
    from bigtree import dag_iterator
    x = nodes[v]
    list(x.ancestors), list(x.descendants), list(x.siblings), list(dag_iterator(x))
    for t in (nodes[0], nodes[-1]):
        try:
            x.go_to(t)
        except Exception:
            pass


def _noise_step(nodes, step, cls):
    kind = step[1]
    if kind == "q":
        _warm(nodes, step[2])
    elif kind in ("cyc", "hookpre", "hookpost"):
        a, b, m = step[2], step[3], step[4]
        if kind != "cyc":
            cls.ARM = kind[4:]
            cls.OP = step
        try:
            _add_edge(nodes, a, b, m)
        except Exception:
            pass
        finally:
            if cls is not None:
                cls.ARM = None
    elif kind == "tmp":
        a, b, m = step[2], step[3], step[4]
        _add_edge(nodes, a, b, m)
        _warm(nodes, b)
        _warm(nodes, a)
        if len(step) > 5 and step[5] == "delall" and len(list(nodes[a].children)) == 1:
            del nodes[a].children
        else:
            del nodes[a][nodes[b].node_name]
        if not (len(step) > 6 and step[6] == "cold"):
            _warm(nodes, b)
            _warm(nodes, a)


_PROP = {}


def build_real(d):
    """build real DAGNode objects edge by edge through the public setters; returns nodes (by id).
    With d["noise"] (see add_noise) the final DAG is reached through a HISTORY: warm-up queries, refused
    cycle-closing assignments, assignments rolled back because a (reading) user hook raises, and edges that are
    added and deleted again are interleaved with the edge insertions; the final links are those of d["edges"]."""
    from bigtree import DAGNode
    attrs = d.get("attrs") or {}
    noise = d.get("noise") or []
    cls = hooked_class() if noise else DAGNode
    sel = d.get("sel")
    if not noise and isinstance(sel, list) and sel and zlib.crc32(repr((d.get("fmt"), sel, d["edges"])).encode()) % 3 == 0:
        # requested attributes are read with node.get_attr(key), i.e. getattr: a user subclass may supply them through a
        # read-only property instead of the instance dictionary (private fields `_p_<key>` behind properties)
        keys = tuple(sorted({k for k, _c in sel}))
        if keys not in _PROP:
            ns = {k: property(lambda self, _k=k: self.__dict__.get("_p_" + _k)) for k in keys}

            def __init__(self, name, _keys=keys, **kw):
                DAGNode.__init__(self, name, **{("_p_" + k if k in _keys else k): v for k, v in kw.items()})
            ns["__init__"] = __init__
            _PROP[keys] = type("PropDAGNode", (DAGNode,), ns)
        cls = _PROP[keys]
    nodes = [cls(nm, **attrs.get(str(i), {})) for i, nm in enumerate(d["names"])]
    modes = d.get("modes") or ""
    for k, (p, c) in enumerate(d["edges"]):
        for st in noise:
            if st[0] == k:
                _noise_step(nodes, st, cls)
        _add_edge(nodes, p, c, modes[k] if k < len(modes) else "P")
    for st in noise:
        if st[0] >= len(d["edges"]):
            _noise_step(nodes, st, cls)
    return nodes


def add_noise(rng: random.Random, n: int, edges, amount: int = 4):
    """history steps [k, kind, …] to run before edge k is added (k == len(edges): after the last one); none of them
    changes the final links: 'q' v (queries), 'cyc' a b m (a>b closes a cycle or is a self loop: refused),
    'hookpre'/'hookpost' a b m (any new edge a>b, the user hook raises: rolled back), 'tmp' a b m (a valid edge
    that is not part of the DAG is added, queried and deleted again)"""
    edges = [tuple(e) for e in edges]
    final = set(edges)
    out = []
    for _ in range(amount):
        k = rng.randint(0, len(edges)) if rng.random() < 0.7 else len(edges)   # often the very last thing that happens
        cur = edges[:k]
        kind = rng.choice(["q", "cyc", "hookpre", "hookpost", "hookpost", "tmp", "tmp"])
        m = rng.choice("PCRL")
        if kind == "q":
            out.append([k, "q", rng.randrange(n)])
            continue
        a, b = rng.randrange(n), rng.randrange(n)
        if kind == "cyc":
            # b must reach a (or a == b)
            ch = {i: [c for p, c in cur if p == i] for i in range(n)}
            reach, todo = {b}, [b]
            while todo:
                x = todo.pop()
                for y in ch[x]:
                    if y not in reach:
                        reach.add(y)
                        todo.append(y)
            if a not in reach:
                continue
            out.append([k, "cyc", a, b, m])
        elif kind.startswith("hook"):
            if a == b or (a, b) in cur or not is_acyclic(n, cur + [(a, b)]):
                continue
            out.append([k, kind, a, b, m])
        else:
            if a == b or (a, b) in final or not is_acyclic(n, cur + [(a, b)]):
                continue
            out.append([k, "tmp", a, b, m, rng.choice(["item", "delall"]), rng.choice(["warm", "cold"])])
    out.sort(key=lambda st: st[0])
    return out


def real_edges(nodes, ids):
    """edge multiset read off the real objects (children lists), plus a symmetry check"""
    es = []
    msgs = []
    for n in nodes:
        for c in n.children:
            es.append((ids(n), ids(c)))
            if not any(p is n for p in c.parents):
                msgs.append(f"link {ids(n)}>{ids(c)} is not mirrored in parents")
        for p in n.parents:
            if not any(c is n for c in p.children):
                msgs.append(f"link {ids(p)}>{ids(n)} is not mirrored in children")
    return es, msgs


def enc_edges(es):
    return ",".join("%s>%s" % (p, c) for p, c in es) if es else "-"


def enc_node_attrs(attrs: dict) -> str:
    items = []
    for i in sorted(attrs, key=int):
        if attrs[i]:
            items.append("%s:%s" % (i, core.enc_attrs(attrs[i])))
    return ";".join(items) if items else "-"


def dag_tokens(d) -> str:
    return "n=%d E=%s" % (d["n"], enc_edges(d["edges"]))


def multiset(s: str, sep: str):
    return sorted(s.split(sep)) if s not in ("-", "") else []


def shrink_dag(d):
    """smaller DAG candidates: drop one edge; drop the highest isolated node"""
    n, edges = d["n"], d["edges"]
    noise = d.get("noise") or []
    if noise:
        yield dict(d, noise=[])
        for k in range(len(noise)):
            yield dict(d, noise=noise[:k] + noise[k + 1:])
    for k in range(len(edges)):
        # (history steps are only valid relative to the edge list they were generated for: dropped with the edge)
        nd = dict(d, edges=edges[:k] + edges[k + 1:], modes=(d.get("modes") or "")[:k] + (d.get("modes") or "")[k + 1:], noise=[])
        yield nd
    used = {x for e in edges for x in e}
    last = n - 1
    if n > 1 and last not in used and d.get("start", 0) != last:
        attrs = {k: v for k, v in (d.get("attrs") or {}).items() if int(k) != last}
        yield dict(d, n=n - 1, names=d["names"][:-1], attrs=attrs)
