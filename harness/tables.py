"""Source -> Lean: regenerate BigtreeModel/Generated/Tables.lean from /repo's current working tree.

Read with `ast` (the package is not imported): the print-style tables, the Newick special
characters, and the skeleton of every `if ASSERTIONS:` guard plus a purity summary of the
`__check_*` functions.  The theorems in BigtreeProofs/Properties that quantify over "every
built-in style", "the documented special characters" or "the guards" are re-checked by the
kernel against what the source says now.
"""
from __future__ import annotations
import ast, os

MUTATORS = {"append", "remove", "insert", "extend", "pop", "clear", "update", "sort", "reverse",
            "setdefault", "popitem", "add", "discard", "__setattr__", "__delattr__", "__setitem__"}


def _eval_class(path: str, clsname: str, prelude: str = ""):
    """the class object `clsname` of the data module at `path`.  First the class statement alone (nothing else of the
    module is executed); when the class body refers to module-level helpers (a table built by a function, constants
    shared between classes) the whole module is executed in a scratch namespace instead - it is a pure data module
    (dataclasses, enums, literals), it is not imported as part of the package and nothing of bigtree gets loaded."""
    # the tables are what a user of the module sees AFTER the module has run (a table may be completed by module-level
    # code below the class statement): execute the data module in a scratch namespace first; the class statement alone
    # is the fall-back when the module cannot be executed in isolation
    try:
        return getattr(_exec_module(path), clsname)
    except Exception:  # noqa: BLE001
        pass
    src = open(path, encoding="utf-8").read()
    tree = ast.parse(src)
    for node in tree.body:
        if isinstance(node, ast.ClassDef) and node.name == clsname:
            try:
                only = ast.Module(body=[ast.ClassDef(name=node.name, bases=node.bases, keywords=node.keywords, body=node.body,
                                                     decorator_list=[], **({"type_params": []} if hasattr(node, "type_params") else {}))],
                                  type_ignores=[])
                ns: dict = {}
                exec(prelude, ns)
                exec(compile(ast.fix_missing_locations(only), path, "exec"), ns)
                return ns[clsname]
            except Exception:
                return getattr(_exec_module(path), clsname)
    # the name may be bound differently (assignment, re-export): execute the module and look it up
    return getattr(_exec_module(path), clsname)


def _exec_module(path: str):
    import importlib.util, sys
    name = "_verif_tables_scratch"
    spec = importlib.util.spec_from_file_location(name, path)
    mod = importlib.util.module_from_spec(spec)
    sys.modules[name] = mod          # dataclasses look their module up there
    try:
        spec.loader.exec_module(mod)
    finally:
        sys.modules.pop(name, None)
    return mod


def lean_str(s: str) -> str:
    out = []
    for ch in s:
        if ch == '"':
            out.append('\\"')
        elif ch == "\\":
            out.append("\\\\")
        elif ch == "\n":
            out.append("\\n")
        elif 32 <= ord(ch) < 127:
            out.append(ch)
        elif ord(ch) < 0x10000:
            out.append("\\u%04x" % ord(ch))
        else:
            out.append(ch)
    return '"' + "".join(out) + '"'


def _qualname(stack):
    return ".".join(stack)


class GuardScan(ast.NodeVisitor):
    def __init__(self, modname):
        self.mod = modname
        self.stack = []
        self.guards = []       # (qualname, [call names], [non-call statement kinds])
        self.other_reads = []  # qualnames reading ASSERTIONS outside an `if ASSERTIONS:` test
        self.checks = []       # (qualname, [non-local stores], [mutating calls on non-locals])
        self._guard_tests = set()

    def visit_ClassDef(self, node):
        self.stack.append(node.name); self.generic_visit(node); self.stack.pop()

    def visit_FunctionDef(self, node):
        self.stack.append(node.name)
        if "__check_" in node.name or node.name.startswith("_check") or node.name.startswith("check_"):
            self._summarise_check(node)
        self.generic_visit(node)
        self.stack.pop()

    def _summarise_check(self, fn):
        """locals = names bound inside the function; a mutating method call is harmless when its receiver is a local
        that only ever holds FRESH containers (literals, comprehensions, list()/set()/dict()/... calls): however the
        check is written (plain or annotated assignment, append or add), it then cannot reach caller-visible state"""
        local = {a.arg for a in fn.args.args + fn.args.kwonlyargs}
        may_alias = set()
        FRESH_CALLS = {"list", "set", "dict", "tuple", "frozenset", "sorted", "Counter", "defaultdict", "OrderedDict", "deque"}

        def fresh(e):
            if e is None:
                return True
            if isinstance(e, (ast.List, ast.Set, ast.Dict, ast.Tuple, ast.ListComp, ast.SetComp, ast.DictComp, ast.Constant)):
                return True
            if isinstance(e, ast.Call):
                f = e.func
                nm = f.id if isinstance(f, ast.Name) else (f.attr if isinstance(f, ast.Attribute) else "")
                return nm in FRESH_CALLS
            return False

        for n in ast.walk(fn):
            if isinstance(n, ast.Assign):
                for t in n.targets:
                    if isinstance(t, ast.Name):
                        local.add(t.id)
                        if not fresh(n.value):
                            may_alias.add(t.id)
            elif isinstance(n, ast.AnnAssign) and isinstance(n.target, ast.Name):
                local.add(n.target.id)
                if not fresh(n.value):
                    may_alias.add(n.target.id)
            elif isinstance(n, ast.NamedExpr) and isinstance(n.target, ast.Name):
                local.add(n.target.id)
                if not fresh(n.value):
                    may_alias.add(n.target.id)
            elif isinstance(n, (ast.For, ast.comprehension)):
                t = n.target
                for m in ast.walk(t):
                    if isinstance(m, ast.Name):
                        local.add(m.id)
                        may_alias.add(m.id)      # loop variables range over caller-visible objects
        local -= may_alias
        local.discard("self")
        # arguments are caller-owned: mutating them is not pure
        args = {a.arg for a in fn.args.args}
        stores, muts = [], []
        for n in ast.walk(fn):
            if isinstance(n, (ast.Assign, ast.AugAssign, ast.AnnAssign)):
                tg = n.targets if isinstance(n, ast.Assign) else [n.target]
                for t in tg:
                    if not isinstance(t, ast.Name):
                        stores.append(ast.unparse(t))
            elif isinstance(n, (ast.Global, ast.Nonlocal, ast.Delete)):
                stores.append(type(n).__name__)
            elif isinstance(n, ast.Call) and isinstance(n.func, ast.Attribute) and n.func.attr in MUTATORS:
                recv = n.func.value
                if not (isinstance(recv, ast.Name) and recv.id in local and recv.id not in args):
                    muts.append(ast.unparse(n.func))
            elif isinstance(n, ast.Call) and isinstance(n.func, ast.Name) and n.func.id in ("setattr", "delattr"):
                muts.append(n.func.id)
        self.checks.append((_qualname([self.mod] + self.stack), stores, muts))

    def visit_If(self, node):
        if isinstance(node.test, ast.Name) and node.test.id == "ASSERTIONS":
            self._guard_tests.add(id(node.test))
            calls, others = [], []
            for st in node.body:
                if isinstance(st, ast.Expr) and isinstance(st.value, ast.Call):
                    f = st.value.func
                    calls.append(f.attr if isinstance(f, ast.Attribute) else ast.unparse(f))
                else:
                    others.append(type(st).__name__ + ":" + ast.unparse(st)[:60])
            if node.orelse:
                others.append("else-branch")
            self.guards.append((_qualname([self.mod] + self.stack), calls, others))
        self.generic_visit(node)

    def visit_Name(self, node):
        if node.id == "ASSERTIONS" and isinstance(node.ctx, ast.Load) and id(node) not in self._guard_tests:
            self.other_reads.append(_qualname([self.mod] + self.stack))


def scan_guards(repo: str):
    guards, other, checks = [], [], []
    pkg = os.path.join(repo, "bigtree")
    for base, _d, files in os.walk(pkg):
        for f in sorted(files):
            if not f.endswith(".py"):
                continue
            p = os.path.join(base, f)
            modname = os.path.relpath(p, repo)[:-3].replace(os.sep, ".")
            if modname == "bigtree.globals":
                continue
            src = open(p, encoding="utf-8").read()
            if "ASSERTIONS" not in src and "__check_" not in src:
                continue
            sc = GuardScan(modname)
            sc.visit(ast.parse(src))
            guards += sc.guards; other += sc.other_reads
            if modname.startswith("bigtree.node."):
                checks += sc.checks
    return sorted(guards), sorted(other), sorted(checks)


def render(repo: str) -> str:
    consts = os.path.join(repo, "bigtree", "utils", "constants.py")
    EC = _eval_class(consts, "ExportConstants", "from typing import Dict, Tuple, List")
    NC = _eval_class(consts, "NewickCharacter", "from enum import Enum\nfrom typing import List")
    guards, other, checks = scan_guards(repo)
    L = ["/-! GENERATED by harness/tables.py from /repo on every run. Do not edit. -/", "",
         "namespace Generated", ""]
    L.append("/-- `ExportConstants.PRINT_STYLES`: name, stem, branch, stem_final -/")
    L.append("def printStyles : List (String × String × String × String) := [")
    L.append(",\n".join("  (%s, %s, %s, %s)" % (lean_str(k), *map(lean_str, v)) for k, v in EC.PRINT_STYLES.items()))
    L.append("]\n")
    L.append("/-- `ExportConstants.HPRINT_STYLES`: name, then first_child, subsequent_child, split_branch, middle_child, last_child, stem, branch -/")
    L.append("def hprintStyles : List (String × List String) := [")
    L.append(",\n".join("  (%s, [%s])" % (lean_str(k), ", ".join(map(lean_str, v))) for k, v in EC.HPRINT_STYLES.items()))
    L.append("]\n")
    L.append("/-- values of `NewickCharacter` -/")
    L.append("def newickSpecials : List String := [%s]\n" % ", ".join(lean_str(c.value) for c in NC))
    L.append("/-- every `if ASSERTIONS:` block: enclosing function, names called, statements that are not bare calls -/")
    L.append("def guardBlocks : List (String × List String × List String) := [")
    L.append(",\n".join("  (%s, [%s], [%s])" % (lean_str(q), ", ".join(map(lean_str, c)), ", ".join(map(lean_str, o))) for q, c, o in guards))
    L.append("]\n")
    L.append("/-- functions that read `ASSERTIONS` anywhere else -/")
    L.append("def assertionsOtherReads : List String := [%s]\n" % ", ".join(map(lean_str, other)))
    L.append("/-- check functions of the node classes: name, stores to non-locals, mutating calls on non-locals -/")
    L.append("def checkFunctions : List (String × List String × List String) := [")
    L.append(",\n".join("  (%s, [%s], [%s])" % (lean_str(q), ", ".join(map(lean_str, s)), ", ".join(map(lean_str, m))) for q, s, m in checks))
    L.append("]\n")
    L.append("end Generated")
    return "\n".join(L) + "\n"


def regenerate(repo: str, out_path: str) -> bool:
    txt = render(repo)
    os.makedirs(os.path.dirname(out_path), exist_ok=True)
    old = open(out_path, encoding="utf-8").read() if os.path.exists(out_path) else None
    if old != txt:
        with open(out_path, "w", encoding="utf-8") as f:
            f.write(txt)
        return True
    return False


if __name__ == "__main__":
    import sys
    print(render(sys.argv[1] if len(sys.argv) > 1 else "/repo"))
