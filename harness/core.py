"""Shared harness code: protocol encoding, abstract trees, generators, real-tree builders.

Abstract tree spec ("T"): nested tuple (name:str, attrs:dict, children:list[T]).
Ids are assigned in pre-order when a spec is serialised / built, so the same id names the same
node on both sides of the tie.
"""
from __future__ import annotations
import itertools, os, random, sys

REPO = os.environ.get("BIGTREE_REPO", "/repo")
if REPO not in sys.path:
    sys.path.insert(0, REPO)

# ------------------------------------------------------------------ user-hook faults
class UserHookFault(Exception):
    """an exception class of the user's own"""


def hook_exc(op, msg="user hook"):
    """the exception a raising user hook throws while `op` (a JSON-able op tuple of the case) runs. The CLASS is a
    function of the op alone, so a case replays exactly; it ranges over plain built-ins, a user-defined class and
    bigtree's own exception classes (a hook may well raise those: roll-back must not depend on the class)"""
    import zlib
    from bigtree.utils import exceptions as bx
    classes = [RuntimeError, bx.TreeError, ValueError, bx.LoopError, UserHookFault, bx.DuplicatedNodeError, KeyError,
               AttributeError, TypeError, bx.NotFoundError, bx.SearchError, bx.CorruptedTreeError, AssertionError, IndexError]
    k = zlib.crc32(repr(op).encode()) % len(classes) if op is not None else 0
    return classes[k](msg)


# ------------------------------------------------------------------ protocol
def hx(s: str) -> str:
    return "x" + s.encode("utf-8").hex()

def unhx(tok: str) -> str:
    assert tok.startswith("x"), tok
    return bytes.fromhex(tok[1:]).decode("utf-8")

def enc_val(v) -> str:
    if v is None:
        return "n"
    if v is True:
        return "t"
    if v is False:
        return "f"
    if isinstance(v, int):
        return "i%d" % v
    if isinstance(v, str):
        return "s" + hx(v)
    raise TypeError(v)

def enc_attrs(a: dict) -> str:
    if not a:
        return "-"
    return ",".join(hx(k) + ":" + enc_val(v) for k, v in a.items())

def enc_tree(t, counter=None) -> str:
    """prefix form with pre-order ids"""
    if counter is None:
        counter = itertools.count()
    name, attrs, kids = t
    i = next(counter)
    parts = ["(", str(i), hx(name), enc_attrs(attrs)]
    for k in kids:
        parts.append(enc_tree(k, counter))
    parts.append(")")
    return " ".join(parts)

def enc_btree(t, counter=None) -> str:
    """binary spec: None or (name, attrs, left, right)"""
    if counter is None:
        counter = itertools.count()
    if t is None:
        return "_"
    name, attrs, l, r = t
    i = next(counter)
    return " ".join(["(", str(i), hx(name), enc_attrs(attrs), enc_btree(l, counter), enc_btree(r, counter), ")"])

def nats(xs) -> str:
    xs = list(xs)
    return ",".join(str(x) for x in xs) if xs else "-"

# ------------------------------------------------------------------ shapes
def all_shapes(n: int):
    """all ordered rooted trees with exactly n nodes, as nested lists of children"""
    if n == 1:
        yield []
        return
    # forests with n-1 nodes
    yield from _forests(n - 1)

def _forests(n: int):
    if n == 0:
        yield []
        return
    for k in range(1, n + 1):
        for first in all_shapes(k):
            for rest in _forests(n - k):
                yield [first] + rest

def all_shapes_upto(n: int):
    for k in range(1, n + 1):
        yield from all_shapes(k)

def random_shape(rng: random.Random, size: int, style: str | None = None):
    """random ordered tree shape with `size` nodes; styles: bushy, path, caterpillar, deep1, uniform"""
    style = style or rng.choice(["bushy", "path", "caterpillar", "deep1", "uniform", "uniform"])
    kids = [[] for _ in range(size)]
    depth = [1] * size
    for v in range(1, size):
        if style == "path":
            p = v - 1 if rng.random() < 0.8 else rng.randrange(v)
        elif style == "bushy":
            p = rng.randrange(max(1, v // 3 + 1))
        elif style == "caterpillar":
            spine = [u for u in range(v) if u == 0 or (kids[u] or u == v - 1)]
            p = rng.choice(spine)
        elif style == "deep1":
            deepest = max(range(v), key=lambda u: depth[u])
            p = deepest if rng.random() < 0.5 else rng.randrange(v)
        else:
            p = rng.randrange(v)
        if len(kids[p]) >= 8 or depth[p] >= 10:
            p = min(range(v), key=lambda u: (len(kids[u]) >= 8 or depth[u] >= 10, rng.random()))
        kids[p].append(v)
        depth[v] = depth[p] + 1
    def build(u):
        return [build(c) for c in kids[u]]
    return build(0)

def shape_size(s) -> int:
    return 1 + sum(shape_size(c) for c in s)

def shape_depth(s) -> int:
    return 1 + max([shape_depth(c) for c in s], default=0)

def shape_fanout(s) -> int:
    return max([len(s)] + [shape_fanout(c) for c in s])

# ------------------------------------------------------------------ naming
def name_distinct(i: int) -> str:
    return "n%d" % i

def label(shape, namer, attrer=None):
    """shape -> spec; namer(preorder_idx, depth, sibling_idx, parent_name) -> name"""
    ctr = itertools.count()
    def go(s, depth, sib, pname):
        i = next(ctr)
        nm = namer(i, depth, sib, pname)
        at = attrer(i) if attrer else {}
        return (nm, at, [go(c, depth + 1, k, nm) for k, c in enumerate(s)])
    return go(shape, 1, 0, None)

def label_sibling_unique(shape, rng: random.Random, alphabet):
    """label with names from `alphabet` (repeats across branches allowed, never among siblings);
    falls back to alphabet[k]+str(j) when a sibling group is larger than the alphabet"""
    def go(s, nm):
        pool = list(alphabet)
        rng.shuffle(pool)
        kids = []
        for k, c in enumerate(s):
            cn = pool[k] if k < len(pool) else pool[k % len(pool)] + str(k)
            kids.append(go(c, cn))
        return (nm, {}, kids)
    return go(shape, rng.choice(list(alphabet)))

def spec_nodes(t, addr=()):
    """pre-order list of (addr, spec)"""
    out = [(addr, t)]
    for k, c in enumerate(t[2]):
        out.extend(spec_nodes(c, addr + (k,)))
    return out

def spec_size(t) -> int:
    return 1 + sum(spec_size(c) for c in t[2])

# ------------------------------------------------------------------ real trees
def build_node_tree(t, cls=None, sep="/"):
    """build real bigtree objects from a spec; returns (root, nodes_in_preorder)"""
    from bigtree import Node
    cls = cls or Node
    nodes = []
    def go(s, parent):
        name, attrs, kids = s
        if parent is None and cls is Node or (parent is None and issubclass(cls, Node) and _takes_sep(cls)):
            n = cls(name, sep=sep, **attrs)
        else:
            n = cls(name, **attrs)
        nodes.append(n)
        if parent is not None:
            n.parent = parent
        for k in kids:
            go(k, n)
        return n
    root = go(t, None)
    return root, nodes

_EQC = {}


def eq_class(base=None):
    """a user subclass of `base` (default Node) with VALUE equality and a matching hash: two nodes are equal when
    crc32(name) % 3 agrees, so every tree of a few nodes holds several pairs of equal, distinct nodes.  bigtree
    identifies nodes by identity; what a read-only function returns must not depend on `__eq__` / `__hash__` of a user
    class.  Only for trees that are built with `node.parent = p` on fresh nodes and then only READ: the unchanged
    setters themselves use `list.remove`, `list.index` and dictionaries keyed by nodes."""
    from bigtree import Node
    base = base or Node
    if base not in _EQC:
        import zlib

        class EqNode(base):
            def _k(self):
                return zlib.crc32(str(self.node_name).encode()) % 3

            def __eq__(self, other):
                return isinstance(other, EqNode) and self._k() == other._k()

            def __ne__(self, other):
                return not self.__eq__(other)

            def __hash__(self):
                return self._k()

        EqNode.__name__ = "Eq" + base.__name__
        _EQC[base] = EqNode
    return _EQC[base]


def eq_share(spec) -> bool:
    """a third of the specs (a function of the spec, no random stream)"""
    import zlib
    return zlib.crc32(repr(spec).encode()) % 3 == 0


def _takes_sep(cls) -> bool:
    from bigtree import BinaryNode
    return not issubclass(cls, BinaryNode)

def build_binary_tree(t, cls=None):
    """binary spec: None | (name, attrs, left, right) -> (root, nodes preorder)"""
    from bigtree import BinaryNode
    cls = cls or BinaryNode
    nodes = []
    def go(s):
        if s is None:
            return None
        name, attrs, l, r = s
        n = cls(name, **attrs)
        nodes.append(n)
        ln = go(l)
        rn = go(r)
        n.children = [ln, rn]
        return n
    return go(t), nodes

def all_bshapes(n: int):
    """all binary shapes with exactly n nodes: None | (l, r)"""
    if n == 0:
        yield None
        return
    for k in range(n):
        for l in all_bshapes(k):
            for r in all_bshapes(n - 1 - k):
                yield (l, r)

def label_bshape(bs, namer=None):
    ctr = itertools.count()
    def go(s):
        if s is None:
            return None
        i = next(ctr)
        nm = namer(i) if namer else str(i + 1)
        l = go(s[0]); r = go(s[1])
        return (nm, {}, l, r)
    return go(bs)

def random_bshape(rng: random.Random, size: int):
    if size == 0:
        return None
    k = rng.randrange(size)
    if rng.random() < 0.3:
        k = rng.choice([0, size - 1])
    return (random_bshape(rng, k), random_bshape(rng, size - 1 - k))

class IdMap:
    """identity -> case-local id (pre-order index at build time); unknown objects get 'new<k>'"""
    def __init__(self, nodes):
        self.m = {id(n): i for i, n in enumerate(nodes)}
        self.keep = list(nodes)  # keep objects alive so id() stays unique
    def __call__(self, node):
        if node is None:
            return "-"
        return self.m.get(id(node), "?")
    def list(self, nodes) -> str:
        return nats(self(n) for n in nodes)
