#!/venv/bin/python
"""Regenerate the machine-written parts of DESIGN.md (between AUTO markers): §11 what was built
(from harness/props/*.py and evidence/*.json) and §12 seeded changes (from seeded/*/meta.json)."""
import glob, importlib, json, os, re, sys
V = os.path.dirname(os.path.dirname(os.path.abspath(__file__)))
sys.path.insert(0, os.path.join(V, "harness"))


def built():
    out = []
    for i in range(1, 21):
        pid = "C%02d" % i
        try:
            m = importlib.import_module("props." + pid)
        except Exception as e:  # noqa: BLE001
            out.append(f"### {pid}\n\n(module does not import: {e})\n")
            continue
        ev = {}
        p = os.path.join(V, "evidence", pid + ".json")
        if os.path.exists(p):
            ev = json.load(open(p))
        cov = ev.get("coverage", {})
        out.append(f"### {pid}\n")
        out.append(f"*Technique.* {getattr(m, 'TECHNIQUE', '')}\n")
        out.append(f"*Level claimed.* {getattr(m, 'LEVEL_TEXT', '')}\n")
        out.append(f"*Trusted / assumed.* {getattr(m, 'LEVEL_NOTE', '')}\n")
        ths = list(getattr(m, "THEOREMS", []))
        out.append(f"*Theorems audited on every run ({len(ths)}).* " + ", ".join(f"`{t}`" for t in ths) + "\n")
        mod = list(getattr(m, "MODELLED", []))
        if mod:
            out.append("*Modelled rather than verified.* " + " · ".join(mod) + "\n")
        ass = list(getattr(m, "ASSUMPTIONS", []))
        if ass:
            out.append("*Assumptions.* " + " · ".join(ass) + "\n")
        ex = getattr(m, "EXHAUSTIVE", {})
        if ex.get("quick") or ex.get("thorough"):
            out.append(f"*Exhaustively enumerated sub-space.* quick: {ex.get('quick') or '—'}; thorough: {ex.get('thorough') or '—'}\n")
        if cov:
            out.append(f"*Last committed evidence.* tier {ev.get('tier')}, seed {ev.get('seed')}: {cov.get('evaluations')} cases "
                       f"({cov.get('distinct_nontrivial')} distinct non-trivial), {cov.get('mismatches')} mismatches, "
                       f"{cov.get('oracle_failures')} oracle failures ({cov.get('oracle_failures_matching_known_findings')} matching known findings), "
                       f"{cov.get('discharged')}/{cov.get('obligations')} theorems, {ev.get('wall_s')} s\n")
    return "\n".join(out)


def seeded():
    rows = ["| seeded change | breaks | what it needs to manifest | check run | detected | note |", "|---|---|---|---|---|---|"]
    tot = det = 0
    for d in sorted(glob.glob(os.path.join(V, "seeded", "*"))):
        mp = os.path.join(d, "meta.json")
        if not os.path.exists(mp):
            continue
        m = json.load(open(mp))
        v = m.get("verified", {})
        sid = os.path.basename(d)
        prop = m.get("property", sid.split("-")[0])
        need = str(m.get("needs_to_manifest", "")).replace("\n", " ").replace("|", "/")
        what = str(m.get("what_it_breaks", "")).replace("\n", " ").replace("|", "/")
        detected = v.get("detected")
        by = v.get("detected_by")
        note = v.get("history", "") or v.get("note", "")
        if by and not detected:
            note = ("caught by " + ", ".join(by) + ". " + note).strip()
        tot += 1
        det += 1 if (detected or by) else 0
        rows.append(f"| `{sid}` | {prop}: {what[:220]} | {need[:260]} | `{v.get('check_cmd', '')}` | "
                    f"{'yes' if detected else ('yes (' + ','.join(by) + ')' if by else '**no**')} | {str(note)[:300]} |")
    rows.append("")
    rows.append(f"{det} of {tot} confirmed seeded changes are detected by the registered checks as they are now.")
    return "\n".join(rows)


def main():
    p = os.path.join(V, "DESIGN.md")
    s = open(p).read()
    for tag, txt in (("BUILT", built()), ("SEEDED", seeded())):
        a, b = f"<!-- BEGIN AUTO {tag} -->", f"<!-- END AUTO {tag} -->"
        if a in s and b in s:
            s = s[:s.index(a) + len(a)] + "\n" + txt + "\n" + s[s.index(b):]
        else:
            print("marker missing:", tag)
    open(p, "w").write(s)


if __name__ == "__main__":
    main()
