#!/venv/bin/python
"""tools/verify_mutant.py <src_dir> <seed_id> <Cxx> [--skip-suite] [--tier quick]

Confirm a seeded change independently and store it under /verif/seeded/<seed_id>/:
  1. the patch applies to a scratch copy of /repo (outside /repo and /verif);
  2. demo.py passes on the pristine copy and fails on the patched copy;
  3. the pinned suite's stable_pass set still passes on the patched copy;
  4. ./check <Cxx> against the patched copy: detected (exit 1 + VIOLATION) or missed.
Writes meta.json (original fields + "verified": {...}). The scratch copy is removed.
"""
import json, os, shutil, subprocess, sys, tempfile, time

V = os.path.dirname(os.path.dirname(os.path.abspath(__file__)))


def run(cmd, **kw):
    return subprocess.run(cmd, capture_output=True, text=True, **kw)


def main():
    src, seed_id, prop = sys.argv[1:4]
    skip_suite = "--skip-suite" in sys.argv
    tier = "quick"
    if "--tier" in sys.argv:
        tier = sys.argv[sys.argv.index("--tier") + 1]
    patch = os.path.join(src, "patch.diff")
    demo = os.path.join(src, "demo.py")
    meta = json.load(open(os.path.join(src, "meta.json"))) if os.path.exists(os.path.join(src, "meta.json")) else {}
    d = tempfile.mkdtemp(prefix="mutver.", dir="/tmp")
    res = {"date": time.strftime("%Y-%m-%d %H:%M"), "repo_head": run(["git", "-C", "/repo", "rev-parse", "--short", "HEAD"]).stdout.strip()}
    try:
        subprocess.check_call(["rsync", "-a", "--exclude", ".git", "/repo/", d + "/"])
        env = dict(os.environ, PYTHONPATH=d)
        p0 = run(["/venv/bin/python", demo], env=env, cwd=d, timeout=600)
        res["demo_pristine_exit"] = p0.returncode
        pa = run(["patch", "-p1", "-s", "-i", os.path.abspath(patch)], cwd=d)
        res["patch_applies"] = pa.returncode == 0
        if pa.returncode != 0:
            res["patch_error"] = (pa.stdout + pa.stderr)[-500:]
        else:
            p1 = run(["/venv/bin/python", demo], env=env, cwd=d, timeout=600)
            res["demo_patched_exit"] = p1.returncode
            res["demo_patched_tail"] = (p1.stdout + p1.stderr)[-400:]
            if not skip_suite:
                b = run(["/venv/bin/python", os.path.join(V, "tools", "baseline.py")], env=dict(os.environ, BIGTREE_REPO=d))
                res["suite_stable_pass_ok"] = b.returncode == 0
                res["suite_summary"] = b.stdout.strip().splitlines()[:3]
            c = run([os.path.join(V, "check"), prop, "--tier", tier], env=dict(os.environ, BIGTREE_REPO=d), cwd=V, timeout=7200)
            res["check_cmd"] = f"BIGTREE_REPO=<patched copy> ./check {prop} --tier {tier}"
            res["check_exit"] = c.returncode
            vl = [l for l in c.stdout.splitlines() if l.startswith("VIOLATION")]
            res["check_violation_line"] = vl[0] if vl else ""
            res["detected"] = c.returncode == 1 and bool(vl)
            if vl:
                rp = vl[0].split("replay=")[1].split()[0]
                try:
                    rj = json.load(open(os.path.join(V, rp)))
                    res["replay_excerpt"] = {k: rj.get(k) for k in ("kind", "line", "failure", "implementation", "model") if k in rj}
                    if isinstance(res["replay_excerpt"].get("line"), str):
                        res["replay_excerpt"]["line"] = res["replay_excerpt"]["line"][:400]
                except Exception as e:
                    res["replay_excerpt"] = repr(e)
    finally:
        shutil.rmtree(d, ignore_errors=True)
    ok = res.get("patch_applies") and res.get("demo_pristine_exit") == 0 and res.get("demo_patched_exit", 0) != 0 \
        and (skip_suite or res.get("suite_stable_pass_ok"))
    res["confirmed"] = bool(ok)
    meta["verified"] = res
    print(json.dumps(res, indent=1))
    if ok:
        out = os.path.join(V, "seeded", seed_id)
        os.makedirs(out, exist_ok=True)
        shutil.copy(patch, os.path.join(out, "patch.diff"))
        shutil.copy(demo, os.path.join(out, "demo.py"))
        json.dump(meta, open(os.path.join(out, "meta.json"), "w"), indent=1)
        print("stored in", out)
    else:
        print("NOT confirmed; nothing stored")
    return 0


if __name__ == "__main__":
    sys.exit(main())
