#!/venv/bin/python
"""tools/reverify_seeded.py [seed_id ...] — re-run the registered quick check of every stored seeded
change (seeded/<id>/patch.diff) against a patched scratch copy of /repo and refresh the `verified`
record in its meta.json (detected / exit / violation line / date). Other properties to try can be
given in meta["verified"]["also_try"] (list of property ids)."""
import glob, json, os, shutil, subprocess, sys, tempfile, time

V = os.path.dirname(os.path.dirname(os.path.abspath(__file__)))


def run_check(patch, prop, tier="quick"):
    d = tempfile.mkdtemp(prefix="mutre.", dir="/tmp")
    try:
        subprocess.check_call(["rsync", "-a", "--exclude", ".git", "/repo/", d + "/"])
        pa = subprocess.run(["patch", "-p1", "-s", "-i", os.path.abspath(patch)], cwd=d, capture_output=True, text=True)
        if pa.returncode != 0:
            return {"patch_applies": False, "patch_error": (pa.stdout + pa.stderr)[-300:]}
        c = subprocess.run([os.path.join(V, "check"), prop, "--tier", tier], env=dict(os.environ, BIGTREE_REPO=d), cwd=V,
                           capture_output=True, text=True, timeout=7200)
        vl = [l for l in c.stdout.splitlines() if l.startswith("VIOLATION")]
        return {"patch_applies": True, "check_exit": c.returncode, "check_violation_line": vl[0] if vl else "",
                "detected": c.returncode == 1 and bool(vl)}
    finally:
        shutil.rmtree(d, ignore_errors=True)


def demo_still_fails(sid):
    """does the demo still fail on the patched CURRENT /repo (a later fix: commit may have neutralised the change)"""
    d = tempfile.mkdtemp(prefix="mutre.", dir="/tmp")
    try:
        subprocess.check_call(["rsync", "-a", "--exclude", ".git", "/repo/", d + "/"])
        pa = subprocess.run(["patch", "-p1", "-s", "-i", os.path.join(V, "seeded", sid, "patch.diff")], cwd=d, capture_output=True, text=True)
        if pa.returncode != 0:
            return None
        p = subprocess.run(["/venv/bin/python", os.path.join(V, "seeded", sid, "demo.py")], cwd=d, env=dict(os.environ, PYTHONPATH=d),
                           capture_output=True, text=True, timeout=900)
        return p.returncode != 0
    finally:
        shutil.rmtree(d, ignore_errors=True)


def main():
    ids = sys.argv[1:] or [os.path.basename(p) for p in sorted(glob.glob(os.path.join(V, "seeded", "*")))]
    for sid in ids:
        mp = os.path.join(V, "seeded", sid, "meta.json")
        m = json.load(open(mp))
        v = m.setdefault("verified", {})
        prop = m.get("property", sid.split("-")[0])
        r = run_check(os.path.join(V, "seeded", sid, "patch.diff"), prop)
        was = v.get("detected")
        v.update(r)
        v["date"] = time.strftime("%Y-%m-%d %H:%M")
        v["repo_head"] = subprocess.run(["git", "-C", "/repo", "rev-parse", "--short", "HEAD"], capture_output=True, text=True).stdout.strip()
        v["check_cmd"] = f"BIGTREE_REPO=<patched copy> ./check {prop} --tier quick"
        if r.get("detected") and was is False and not v.get("history"):
            v["history"] = "missed by the first version of the check; detected after the check was strengthened"
        by = []
        for other in v.get("also_try", []):
            r2 = run_check(os.path.join(V, "seeded", sid, "patch.diff"), other)
            if r2.get("detected"):
                by.append(other)
        if by:
            v["detected_by"] = by
        if not r.get("detected"):
            v["demo_still_fails_on_current_repo"] = demo_still_fails(sid)
        json.dump(m, open(mp, "w"), indent=1)
        print(sid, "detected" if r.get("detected") else "MISSED", r.get("check_exit"), v.get("detected_by", ""), flush=True)


if __name__ == "__main__":
    main()
