#!/bin/sh
# Offline setup: build the Lean project (models, proofs, one native driver per property).
# Each check rebuilds its own targets anyway; a target that fails here is reported by its check.
cd "$(dirname "$0")/../lean" || exit 2
/venv/bin/python ../harness/tables.py /repo > BigtreeModel/Generated/Tables.lean.new 2>/dev/null \
  && { cmp -s BigtreeModel/Generated/Tables.lean.new BigtreeModel/Generated/Tables.lean || cp BigtreeModel/Generated/Tables.lean.new BigtreeModel/Generated/Tables.lean; }
rm -f BigtreeModel/Generated/Tables.lean.new
lake build && exit 0
echo "full build failed; building per property"
for i in 01 02 03 04 05 06 07 08 09 10 11 12 13 14 15 16 17 18 19 20; do
  lake build "btmodel_C$i" "BigtreeProofs.Properties.C$i" >/dev/null 2>&1 || echo "target C$i failed to build"
done
exit 0
