#!/bin/sh
# tools/sweep.sh "<seeds>" [tier] — run every registered check for several seeds; print one line per run
# and the tail of any run that does not exit 0. Not evidence (see vp run); a robustness sweep.
seeds="${1:-1 2 3}"; tier="${2:-quick}"
cd "$(dirname "$0")/.." || exit 2
sh tools/setup.sh >/dev/null 2>&1
for s in $seeds; do
  for i in 01 02 03 04 05 06 07 08 09 10 11 12 13 14 15 16 17 18 19 20; do
    start=$(date +%s)
    VERIF_SEED=$s ./check C$i --tier "$tier" > /tmp/sweep.$$.log 2>&1; rc=$?
    echo "seed=$s C$i rc=$rc $(( $(date +%s) - start ))s $(grep -E '^(OK|VIOLATION|KNOWN|INFRA)' /tmp/sweep.$$.log | tr '\n' ' ' | cut -c1-300)"
    [ $rc -ne 0 ] && tail -15 /tmp/sweep.$$.log
  done
done
rm -f /tmp/sweep.$$.log
