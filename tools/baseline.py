#!/venv/bin/python
"""Run /repo's pinned suite (guard OFF) and compare with /root/.vp/BASELINE.json stable_pass.
exit 0 iff every stable_pass test passes."""
import json, os, subprocess, sys, tempfile, xml.etree.ElementTree as ET
repo = os.environ.get("BIGTREE_REPO", "/repo")
base = json.load(open("/root/.vp/BASELINE.json"))
env = dict(os.environ); env.pop("BIGTREE_VERIF", None); env["PYTHONPATH"] = repo
with tempfile.TemporaryDirectory() as d:
    jx = os.path.join(d, "j.xml")
    subprocess.run(["/venv/bin/python", "-m", "pytest", "-ra", "-q", "-p", "no:cacheprovider",
                    "--timeout=900", "--continue-on-collection-errors", "--junitxml=" + jx],
                   cwd=repo, env=env, stdout=subprocess.DEVNULL, stderr=subprocess.DEVNULL)
    root = ET.parse(jx).getroot()
passed = set()
for tc in root.iter("testcase"):
    ok = not any(ch.tag in ("failure", "error", "skipped") for ch in tc)
    if ok:
        passed.add(f"{tc.get('classname')}::{tc.get('name')}")
want = set(base["stable_pass"])
missing = sorted(want - passed)
print(f"stable_pass={len(want)} passed_now={len(passed)} missing={len(missing)}")
for m in missing[:20]:
    print("  MISSING", m)
sys.exit(1 if missing else 0)
