#!/bin/sh
# tools/coverage_report.sh [tier] — run every registered check under coverage.py (branch coverage of
# /repo/bigtree) and print, per source file, the lines no check ever executed. A generator-quality tool:
# the correspondence check only sees what its cases reach. Not evidence.
tier="${1:-quick}"
cd "$(dirname "$0")/.." || exit 2
out=/tmp/cov.$$; mkdir -p $out
for i in 01 02 03 04 05 06 07 08 09 10 11 12 13 14 15 16 17 18 19 20; do
  ( COVERAGE_FILE=$out/.coverage.C$i /venv/bin/python -m coverage run --branch --source=/repo/bigtree harness/runner.py C$i --tier "$tier" --no-build >$out/C$i.log 2>&1; echo "C$i rc=$?" ) &
  case $i in 04|08|12|16) wait;; esac
done
wait
cd $out && /venv/bin/python -m coverage combine --keep .coverage.C* >/dev/null 2>&1
/venv/bin/python -m coverage report --show-missing --skip-covered 2>/dev/null | cut -c1-400
for i in 01 02 03 04 05 06 07 08 09 10 11 12 13 14 15 16 17 18 19 20; do
  COVERAGE_FILE=$out/.coverage.C$i /venv/bin/python -m coverage json -o $out/C$i.json >/dev/null 2>&1
done
echo "per-check data in $out (remove when done)"
