#!/bin/sh
# tools/harmless_run.sh <dir with h*/patch.diff> [jobs] — false-alarm test: apply each behaviour-preserving patch to a scratch
# copy of /repo (outside /repo and /verif), run EVERY registered quick check against the copy, report any non-zero exit.
src="$1"; jobs="${2:-4}"
cd "$(dirname "$0")/.." || exit 2
for pd in "$src"/*h[0-9]*/; do
  id=$(basename "$pd")
  d=$(mktemp -d /tmp/harmless.XXXXXX)
  rsync -a --exclude .git /repo/ "$d/"
  if ! (cd "$d" && patch -p1 -s < "$pd/patch.diff"); then echo "$id patch-failed"; rm -rf "$d"; continue; fi
  printf '%s\n' 01 02 03 04 05 06 07 08 09 10 11 12 13 14 15 16 17 18 19 20 | \
    xargs -P "$jobs" -I{} sh -c "BIGTREE_REPO=$d ./check C{} --tier quick > $d/.C{}.log 2>&1; echo \"$id C{} rc=\$? \$(grep -E '^(VIOLATION)' $d/.C{}.log | head -1)\""
  mkdir -p /tmp/harmless_logs/$id; cp $d/.C*.log /tmp/harmless_logs/$id/ 2>/dev/null
  rm -rf "$d"
done
