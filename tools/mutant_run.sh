#!/bin/sh
# tools/mutant_run.sh <patch.diff> <Cxx> [tier]  — apply a patch to a scratch copy of /repo (outside
# /repo and /verif), run the check against the copy via BIGTREE_REPO, remove the copy. Exit = check's exit.
set -u
patch="$(realpath "$1")"; prop="$2"; tier="${3:-quick}"
d="$(mktemp -d /tmp/mutant.XXXXXX)"
trap 'rm -rf "$d"' EXIT
rsync -a --exclude .git /repo/ "$d/" || exit 2
(cd "$d" && patch -p1 -s < "$patch") || { echo "patch failed"; exit 2; }
cd "$(dirname "$0")/.." && BIGTREE_REPO="$d" ./check "$prop" --tier "$tier"
