#!/venv/bin/python
"""Regenerate MANIFEST.json from harness/props/*.py (each module carries its own level text)."""
import importlib, json, os, sys
V = os.path.dirname(os.path.dirname(os.path.abspath(__file__)))
sys.path.insert(0, os.path.join(V, "harness"))
ids = ["C%02d" % i for i in range(1, 21)]
checks, na = [], []
for pid in ids:
    if not os.path.exists(os.path.join(V, "harness", "props", pid + ".py")):
        na.append({"property_id": pid, "reason": "check not built yet (work in progress; see DESIGN.md section 6 for the plan)"})
        continue
    try:
        m = importlib.import_module("props." + pid)
    except Exception as e:
        print("import failed", pid, e)
        m = None
    if m is None or getattr(m, "NOT_READY", True) or not getattr(m, "LEVEL_TEXT", ""):
        na.append({"property_id": pid, "reason": "check not built yet (work in progress; see DESIGN.md section 6 for the plan)"})
        continue
    checks.append({
        "property_id": pid,
        "quick_cmd": f"./check {pid} --tier quick",
        "thorough_cmd": f"./check {pid} --tier thorough",
        "evidence_file": f"evidence/{pid}.json",
        "replay_cmd_template": f"./check {pid} --replay {{path}}",
        "engine": "lean4-proof+correspondence",
        "level_claimed": {"category": "proof", "text": m.LEVEL_TEXT, "design_ref": f"DESIGN.md section 6, {pid}"},
        "level_note": m.LEVEL_NOTE,
        "technique": m.TECHNIQUE,
    })
man = {
    "version": 1,
    "setup_cmd": "sh tools/setup.sh",
    "hooks": {"guard": "BIGTREE_VERIF", "enable": "no instrumentation hooks are needed; checks import bigtree from /repo's working tree as it is",
              "baseline_off_cmd": "/venv/bin/python tools/baseline.py", "source_commits": [], "add_only": True},
    "engines": [{"name": "lean4-proof+correspondence", "path": "check", "serves_properties": [c["property_id"] for c in checks],
                 "kind_free_text": "Lean 4 theorems about a hand-written executable model (lean/), tied to /repo on every run by a correspondence check (harness/) against the compiled model driver, plus tables regenerated from source"}],
    "checks": checks,
    "notes": "Every check: regenerate Generated/Tables.lean from /repo, lake build, #print axioms audit of the property's theorems, correspondence real-code vs model, model-free oracle on the real code, known findings (known_findings.json).",
    "not_applicable": na,
}
json.dump(man, open(os.path.join(V, "MANIFEST.json"), "w"), indent=1)
print("checks:", [c["property_id"] for c in checks], "na:", len(na))
